(* AcEq_proofs.v — soundness of AcEq.aceq for the complex denotation. *)
From AV Require Import AcEq.
From Coq Require Import Permutation Lra Lia.
Open Scope C_scope.

Definition prodL (l : list C) : C := fold_right Cmult 1 l.
Definition sumL (l : list C) : C := fold_right Cplus 0 l.

Lemma prodL_app l1 l2 : prodL (l1 ++ l2) = prodL l1 * prodL l2.
Proof.
  unfold prodL. induction l1 as [|x xs IH]; cbn [app fold_right].
  - now rewrite Cmult_1_l.
  - now rewrite IH, Cmult_assoc.
Qed.
Lemma sumL_app l1 l2 : sumL (l1 ++ l2) = sumL l1 + sumL l2.
Proof.
  unfold sumL. induction l1 as [|x xs IH]; cbn [app fold_right].
  - now rewrite Cplus_0_l.
  - now rewrite IH, Cplus_assoc.
Qed.

Lemma prodL_perm l l' : Permutation l l' -> prodL l = prodL l'.
Proof.
  induction 1 as [|x l l' _ IH|x y l|l l' l'' _ IH1 _ IH2].
  - reflexivity.
  - unfold prodL in *. cbn. now rewrite IH.
  - unfold prodL. cbn. rewrite !Cmult_assoc. f_equal. apply Cmult_comm.
  - congruence.
Qed.
Lemma sumL_perm l l' : Permutation l l' -> sumL l = sumL l'.
Proof.
  induction 1 as [|x l l' _ IH|x y l|l l' l'' _ IH1 _ IH2].
  - reflexivity.
  - unfold sumL in *. cbn. now rewrite IH.
  - unfold sumL. cbn. rewrite !Cplus_assoc. f_equal. apply Cplus_comm.
  - congruence.
Qed.

(* powers *)
Fixpoint cpown (z : C) (n : nat) : C := match n with O => 1 | S n' => z * cpown z n' end.
Lemma Cpow_pos_cpown z p : Cpow_pos z p = cpown z (Pos.to_nat p).
Proof.
  unfold Cpow_pos. induction p as [|p IH] using Pos.peano_ind.
  - change (z = z * 1). now rewrite Cmult_1_r.
  - rewrite Pos.iter_op_succ by (intros; apply Cmult_assoc). rewrite IH, Pos2Nat.inj_succ. reflexivity.
Qed.
Lemma prodL_rep_app n l : prodL (rep_app n l) = cpown (prodL l) n.
Proof. induction n as [|n IH]; cbn [rep_app cpown]; [reflexivity|]. now rewrite prodL_app, IH. Qed.

(* rationals *)
Lemma Q2R'_mult p q : Q2R' (Qmult p q) = (Q2R' p * Q2R' q)%R.
Proof.
  destruct p as [a b], q as [c d]. unfold Q2R', Qmult. cbn [Qnum Qden].
  rewrite mult_IZR, Pos2Z.inj_mul, mult_IZR. field. split; apply not_0_IZR; discriminate.
Qed.
Lemma Q2C_mult p q : Q2C (Qmult p q) = Q2C p * Q2C q.
Proof. rewrite !Q2C_R, Q2R'_mult. now rewrite RtoC_mult. Qed.
Lemma Q2R'_Qeq p q : Qeq p q -> Q2R' p = Q2R' q.
Proof.
  destruct p as [a b], q as [c d]. unfold Qeq, Q2R'. cbn [Qnum Qden]. intros H.
  apply (f_equal IZR) in H. rewrite !mult_IZR in H.
  assert (IZR (Z.pos b) <> 0%R) by (apply not_0_IZR; discriminate).
  assert (IZR (Z.pos d) <> 0%R) by (apply not_0_IZR; discriminate).
  apply (Rmult_eq_reg_r (IZR (Z.pos b) * IZR (Z.pos d))%R).
  - field_simplify; try assumption. lra.
  - apply Rmult_integral_contrapositive_currified; assumption.
Qed.
Lemma Q2C_Qeq_bool p q : Qeq_bool p q = true -> Q2C p = Q2C q.
Proof. intros H. apply Qeq_bool_iff in H. rewrite !Q2C_R. f_equal. now apply Q2R'_Qeq. Qed.
Lemma Q2C_one : Q2C 1%Q = 1.
Proof. reflexivity. Qed.
Lemma Q2C_zero q : Qeq_bool q 0 = true -> Q2C q = 0.
Proof. intros H. rewrite (Q2C_Qeq_bool _ _ H). reflexivity. Qed.

Lemma sumL_repeat z n : sumL (repeat z n) = RtoC (INR n) * z.
Proof.
  induction n as [|n IH]; [cbn; now rewrite Cmult_0_l|].
  cbn [repeat]. unfold sumL in *. cbn [fold_right]. rewrite IH, S_INR, RtoC_plus. ring.
Qed.
Lemma Q2C_pos p : Q2C (Z.pos p # 1) = RtoC (INR (Pos.to_nat p)).
Proof.
  rewrite Q2C_R. unfold Q2R'. cbn [Qnum Qden]. f_equal. rewrite INR_IPR.
  change (IZR (Z.pos 1)) with 1%R. unfold Rdiv. rewrite Rinv_1, Rmult_1_r. reflexivity.
Qed.
Lemma Q2C_neg p : Q2C (Z.neg p # 1) = RtoC (INR (Pos.to_nat p)) * Q2C (-1 # 1).
Proof.
  rewrite !Q2C_R. unfold Q2R'. cbn [Qnum Qden]. rewrite <- RtoC_mult. f_equal. rewrite INR_IPR.
  change (IZR (Z.pos 1)) with 1%R. change (IZR (Z.neg p)) with (- IPR p)%R.
  change (IZR (-1)) with (- (1))%R. unfold Rdiv. rewrite Rinv_1. ring.
Qed.
Lemma Q2C_m1 : Q2C (-1 # 1) = - (1).
Proof.
  rewrite Q2C_R. unfold Q2R'. cbn [Qnum Qden]. change (IZR (Z.pos 1)) with 1%R.
  change (IZR (-1)) with (- (1))%R. unfold Rdiv. rewrite Rinv_1, Rmult_1_r. now rewrite RtoC_opp.
Qed.

Lemma map_repeat' {A B} (f : A -> B) x n : map f (repeat x n) = repeat (f x) n.
Proof. induction n as [|n IH]; cbn; [reflexivity|]. now rewrite IH. Qed.
Lemma map_rep_app {A B} (f : A -> B) n l : map f (rep_app n l) = rep_app n (map f l).
Proof. induction n as [|n' IHn]; cbn [rep_app]; [reflexivity|]. now rewrite map_app, IHn. Qed.

Section Sound.
  Variable ρ : envC.
  Notation den := (denC ρ).

  Lemma den_mul l : den (App HMul l) = prodL (map den l).
  Proof. reflexivity. Qed.
  Lemma den_add l : den (App HAdd l) = sumL (map den l).
  Proof. reflexivity. Qed.
  Lemma prodL_single z : prodL [z] = z.
  Proof. unfold prodL. cbn. apply Cmult_1_r. Qed.
  Lemma sumL_single z : sumL [z] = z.
  Proof. unfold sumL. cbn. apply Cplus_0_r. Qed.

  Lemma den_pow_small b q n : small_pos_int q = Some n ->
    den (App HPow [b; Num q]) = cpown (den b) n.
  Proof.
    unfold small_pos_int. destruct q as [qn qd]. cbn [Qden Qnum].
    destruct qd; try discriminate. destruct qn as [|p|p]; try discriminate.
    destruct (Pos.leb p 6); [|discriminate]. intros E. inversion E; subst.
    change (den (App HPow [b; Num (Z.pos p # 1)])) with (Cpow_pos (den b) p).
    apply Cpow_pos_cpown.
  Qed.

  Lemma prodL_factors : forall e, prodL (map den (factors e)) = den e.
  Proof.
    induction e as [s|q|h args IH] using expr_ind'.
    - apply prodL_single.
    - apply prodL_single.
    - destruct h; try apply prodL_single.
      + (* HMul *)
        cbn [factors]. rewrite den_mul.
        induction IH as [|x xs Hx _ IHxs]; [reflexivity|].
        rewrite map_app, prodL_app, Hx, IHxs. reflexivity.
      + (* HPow *)
        destruct args as [|b [|e2 [|e3 rest]]]; try apply prodL_single;
          destruct e2 as [s2|q2|h2 a2]; try apply prodL_single.
        cbn [factors]. destruct (small_pos_int q2) as [n|] eqn:E; [|apply prodL_single].
        rewrite (den_pow_small _ _ _ E).
        inversion IH as [|? ? Hb _]; subst.
        rewrite map_rep_app, prodL_rep_app, Hb. reflexivity.
  Qed.

  Lemma sumL_terms : forall e, sumL (map den (terms e)) = den e.
  Proof.
    induction e as [s|q|h args IH] using expr_ind'.
    - apply sumL_single.
    - apply sumL_single.
    - destruct h; try apply sumL_single.
      cbn [terms]. rewrite den_add.
      induction IH as [|x xs Hx _ IHxs]; [reflexivity|].
      rewrite map_app, sumL_app, Hx, IHxs. reflexivity.
  Qed.

  Lemma split_coeff_sound l : forall c r, split_coeff l = (c, r) ->
    prodL (map den l) = Q2C c * prodL (map den r).
  Proof.
    induction l as [|x xs IH]; intros c r H.
    - cbn in H. inversion H; subst. cbn. now rewrite Cmult_1_l.
    - cbn [split_coeff] in H. destruct (split_coeff xs) as [c' r'] eqn:E.
      specialize (IH c' r' eq_refl).
      destruct x as [s|q|h a]; inversion H; subst; cbn [map]; unfold prodL in *; cbn [fold_right].
      + rewrite IH. rewrite !Cmult_assoc. f_equal. apply Cmult_comm.
      + rewrite IH, Q2C_mult. cbn [denC]. now rewrite Cmult_assoc.
      + rewrite IH. rewrite !Cmult_assoc. f_equal. apply Cmult_comm.
  Qed.

  Lemma filter_zero_terms l :
    sumL (map den (filter (fun t => negb (is_zero_num t)) l)) = sumL (map den l).
  Proof.
    induction l as [|x xs IH]; [reflexivity|]. cbn [filter].
    destruct (is_zero_num x) eqn:E; cbn [negb map]; unfold sumL in *; cbn [fold_right].
    - rewrite IH. destruct x as [s|q|h a]; try discriminate. cbn in E. cbn [denC].
      rewrite (Q2C_zero _ E). now rewrite Cplus_0_l.
    - now rewrite IH.
  Qed.

  Lemma term_expand_sound t : sumL (map den (term_expand t)) = den t.
  Proof.
    unfold term_expand. destruct (split_coeff (factors t)) as [c fs] eqn:E.
    destruct (small_int c) as [[neg n]|] eqn:Ei; [|apply sumL_single].
    destruct n as [|[|n']]; try apply sumL_single.
    rewrite map_repeat', sumL_repeat.
    rewrite <- (prodL_factors t), (split_coeff_sound _ _ _ E).
    change (den (App HMul (Num (if neg then -1 # 1 else 1 # 1) :: fs)))
      with (prodL (Q2C (if neg then -1 # 1 else 1 # 1) :: map den fs)).
    unfold prodL at 1. cbn [fold_right]. fold (prodL (map den fs)).
    unfold small_int in Ei. destruct c as [cn cd]. cbn [Qden Qnum] in Ei.
    destruct cd; try discriminate. destruct cn as [|p|p]; try discriminate;
      destruct (Pos.leb p 8); try discriminate; inversion Ei; subst.
    - rewrite (Q2C_pos p). change (Q2C (1 # 1)) with (RtoC 1). ring.
    - rewrite (Q2C_neg p). ring.
  Qed.
  Lemma flat_expand_sound l : sumL (map den (flat_map term_expand l)) = sumL (map den l).
  Proof.
    induction l as [|x xs IH]; [reflexivity|]. cbn [flat_map map].
    rewrite map_app, sumL_app, term_expand_sound, IH. reflexivity.
  Qed.
  Lemma den_neg_term y : den (neg_term y) = - den y.
  Proof.
    change (den (neg_term y)) with (Q2C (-1 # 1) * (den y * 1)). rewrite Q2C_m1. ring.
  Qed.
  Lemma sumL_neg l : sumL (map den (map neg_term l)) = - sumL (map den l).
  Proof.
    induction l as [|x xs IH]; unfold sumL in *; cbn [map fold_right]; [ring|].
    rewrite IH, den_neg_term. ring.
  Qed.
  Lemma den_neg_of y : den (neg_of y) = - den y.
  Proof.
    destruct y as [s|q|h args]; try apply den_neg_term.
    destruct h; try apply den_neg_term.
    unfold neg_of. rewrite den_add, sumL_neg, sumL_terms. reflexivity.
  Qed.

  Section MSound.
    Variable eqf : expr -> expr -> bool.
    Hypothesis eqf_sound : forall x y, eqf x y = true -> den x = den y.

    Lemma remove_match_sound x : forall l r, remove_match eqf x l = Some r ->
      exists y, eqf x y = true /\ Permutation l (y :: r).
    Proof.
      induction l as [|y l IH]; intros r H; [discriminate|].
      cbn in H. destruct (eqf x y) eqn:E.
      - inversion H; subst. exists y. split; [assumption|apply Permutation_refl].
      - destruct (remove_match eqf x l) as [r'|] eqn:E'; [|discriminate]. inversion H; subst.
        destruct (IH r' eq_refl) as [z [Hz Hp]]. exists z. split; [assumption|].
        eapply Permutation_trans; [apply perm_skip, Hp|apply perm_swap].
    Qed.

    Lemma multiset_eq_perm_den : forall l1 l2, multiset_eq eqf l1 l2 = true ->
      exists l2', Permutation l2 l2' /\ map den l1 = map den l2'.
    Proof.
      induction l1 as [|x l1 IH]; intros l2 H.
      - destruct l2; [|discriminate]. exists []. split; [constructor|reflexivity].
      - cbn in H. destruct (remove_match eqf x l2) as [r|] eqn:E; [|discriminate].
        destruct (remove_match_sound _ _ _ E) as [y [Hy Hp]].
        destruct (IH r H) as [r' [Hr Hm]].
        exists (y :: r'). split.
        + eapply Permutation_trans; [exact Hp|]. now apply perm_skip.
        + cbn. rewrite (eqf_sound _ _ Hy), Hm. reflexivity.
    Qed.

    Lemma multiset_eq_prod l1 l2 : multiset_eq eqf l1 l2 = true ->
      prodL (map den l1) = prodL (map den l2).
    Proof.
      intros H. destruct (multiset_eq_perm_den _ _ H) as [l2' [Hp Hm]].
      rewrite Hm. symmetry. apply prodL_perm. now apply Permutation_map.
    Qed.
    Lemma multiset_eq_sum l1 l2 : multiset_eq eqf l1 l2 = true ->
      sumL (map den l1) = sumL (map den l2).
    Proof.
      intros H. destruct (multiset_eq_perm_den _ _ H) as [l2' [Hp Hm]].
      rewrite Hm. symmetry. apply sumL_perm. now apply Permutation_map.
    Qed.
    Lemma forall2b_map l1 : forall l2, forall2b eqf l1 l2 = true -> map den l1 = map den l2.
    Proof.
      induction l1 as [|x l1 IH]; intros [|y l2] H; try discriminate; [reflexivity|].
      cbn in H. apply andb_true_iff in H as [H1 H2]. cbn. now rewrite (eqf_sound _ _ H1), (IH _ H2).
    Qed.
  End MSound.

  Lemma pos_eq_sound eqf : (forall x y, eqf x y = true -> den x = den y) ->
    forall a b, pos_eq eqf a b = true -> den a = den b.
  Proof.
    intros Hs a b H. destruct a as [s|p|h xs], b as [t|q|k ys]; try discriminate.
    - cbn in H. cbn [denC]. now apply Q2C_Qeq_bool.
    - cbn [pos_eq] in H. destruct h; try discriminate.
      all: try (apply andb_true_iff in H as [Hh Hargs]; apply head_eqb_eq in Hh; subst k;
                cbn [denC]; rewrite (forall2b_map _ Hs _ _ Hargs); reflexivity).
      { (* HPow *)
             destruct k; try discriminate.
      destruct xs as [|x1 [|x2 [|x3 xr]]]; try discriminate.
      destruct ys as [|y1 [|y2 [|y3 yr]]]; try discriminate.
      apply andb_true_iff in H as [H2 H1]. apply expr_eqb_eq in H2. subst y2.
      apply Hs in H1. cbn [denC map]. rewrite H1. reflexivity. }
      (* HAbs *)
      {
        destruct k; try discriminate.
        destruct xs as [|x [|x' xr]]; try discriminate; try (destruct xr; cbn in H; discriminate).
        destruct ys as [|y [|y' yr]]; try discriminate; try (destruct yr; cbn in H; discriminate).
        apply orb_true_iff in H as [H|H]; [apply orb_true_iff in H as [H|H]|]; apply Hs in H.
        - cbn [denC map]. now rewrite H.
        - rewrite den_neg_of in H. cbn [denC map appC chd0]. rewrite H, Cmod_opp. reflexivity.
        - rewrite den_neg_of in H. cbn [denC map appC chd0]. rewrite <- H, Cmod_opp. reflexivity. }
  Qed.

  Theorem aceq_sound : forall fuel a b, aceq fuel a b = true -> den a = den b.
  Proof.
    induction fuel as [|f IH]; intros a b H; [discriminate|].
    cbn [aceq] in H.
    destruct (expr_eqb a b) eqn:Eab; [apply expr_eqb_eq in Eab; now subst|].
    destruct (is_add a || is_add b) eqn:Eadd.
    { rewrite <- (sumL_terms a), <- (sumL_terms b).
      rewrite <- (filter_zero_terms (terms a)), <- (filter_zero_terms (terms b)).
      rewrite <- (flat_expand_sound (filter _ (terms a))), <- (flat_expand_sound (filter _ (terms b))).
      eapply multiset_eq_sum; [exact IH|exact H]. }
    destruct (is_mulish a || is_mulish b) eqn:Emul.
    { destruct (split_coeff (factors a)) as [ca fa] eqn:Ea.
      destruct (split_coeff (factors b)) as [cb fb] eqn:Eb.
      apply andb_true_iff in H as [Hc Hm].
      rewrite <- (prodL_factors a), <- (prodL_factors b).
      rewrite (split_coeff_sound _ _ _ Ea), (split_coeff_sound _ _ _ Eb).
      rewrite (Q2C_Qeq_bool _ _ Hc). f_equal.
      eapply multiset_eq_prod; [exact IH|exact Hm]. }
    eapply pos_eq_sound; [exact IH|exact H].
  Qed.
End Sound.
