(* DenC.v — complex-valued reference semantics of serialised SymPy trees.
   Total denotation [denC] + well-definedness [wdC]; uninterpreted function symbols
   ([HOther f]) are looked up in the environment, so a theorem that quantifies over the
   environment quantifies over every implementation of such a function. *)
From AV Require Export CLib.
Open Scope C_scope.

Record envC := { csym : string -> C; cfn : string -> list C -> C }.

Definition Q2C (q : Q) : C :=
  match Qden q with
  | 1%positive => CofZ (Qnum q)
  | d => CofZ (Qnum q) / CofPos d
  end.

Definition cpowQ (z : C) (q : Q) : C :=
  match Qden q with
  | 1%positive => CpowZ z (Qnum q)
  | 2%positive => CpowZ (Csqrt z) (Qnum q)
  | _ => 0
  end.
Definition wd_cpowQ (z : C) (q : Q) : Prop :=
  match Qden q with
  | 1%positive | 2%positive => match Qnum q with Zneg _ => z <> 0 | _ => True end
  | _ => False
  end.

Definition chd0 (l : list C) : C := match l with x :: _ => x | [] => 0 end.
Definition chd1 (l : list C) : C := match l with _ :: y :: _ => y | _ => 0 end.
Definition b2C (b : bool) : C := if b then 1 else 0.
Definition isreal (z : C) : Prop := snd z = 0%R.

Fixpoint piecewiseC (l : list C) : C :=
  match l with
  | v :: c :: rest => if Req_EM_T (fst c) 0 then piecewiseC rest else v
  | _ => 0
  end.

Definition appC (ρ : envC) (h : head) (args : list expr) (vs : list C) : C :=
  match h with
  | HAdd => fold_right Cplus 0 vs
  | HMul => fold_right Cmult 1 vs
  | HPow => match args with [_; Num q] => cpowQ (chd0 vs) q | _ => Cexp (chd1 vs * Clog (chd0 vs)) end
  | HI => Ci
  | HPi => RtoC PI
  | HAbs => RtoC (Cmod (chd0 vs))
  | HConj => Cconj (chd0 vs)
  | HRe => RtoC (fst (chd0 vs))
  | HIm => RtoC (snd (chd0 vs))
  | HLog => Clog (chd0 vs)
  | HExp => Cexp (chd0 vs)
  | HCos => RtoC (cos (fst (chd0 vs))) | HSin => RtoC (sin (fst (chd0 vs)))
  | HTan => RtoC (tan (fst (chd0 vs)))
  | HAcos => RtoC (acos (fst (chd0 vs))) | HAsin => RtoC (asin (fst (chd0 vs)))
  | HAtan => RtoC (atan (fst (chd0 vs)))
  | HAtan2 => RtoC (atan2 (fst (chd0 vs)) (fst (chd1 vs)))
  | HSign => RtoC (if Rlt_dec 0 (fst (chd0 vs)) then 1 else if Rlt_dec (fst (chd0 vs)) 0 then -1 else 0)
  | HPiecewise => piecewiseC vs
  | HTrue => 1 | HFalse => 0
  | HLt => b2C (Rltb (fst (chd0 vs)) (fst (chd1 vs)))
  | HLe => b2C (Rleb (fst (chd0 vs)) (fst (chd1 vs)))
  | HGt => b2C (Rltb (fst (chd1 vs)) (fst (chd0 vs)))
  | HGe => b2C (Rleb (fst (chd1 vs)) (fst (chd0 vs)))
  | HEq => b2C (Reqb (fst (chd0 vs)) (fst (chd1 vs)) && Reqb (snd (chd0 vs)) (snd (chd1 vs)))
  | HNe => b2C (negb (Reqb (fst (chd0 vs)) (fst (chd1 vs)) && Reqb (snd (chd0 vs)) (snd (chd1 vs))))
  | HAnd => fold_right Cmult 1 vs
  | HNot => b2C (Reqb (fst (chd0 vs)) 0)
  | HOther f => cfn ρ f vs
  | HOr | HTuple | HIndexed | HStr | HPair | HNaN | HInf | HNegInf | HZoo => 0
  end.

Fixpoint denC (ρ : envC) (e : expr) : C :=
  match e with
  | Sym s => csym ρ s
  | Num q => Q2C q
  | App h args => appC ρ h args (map (denC ρ) args)
  end.

Definition wd_headC (h : head) (args : list expr) (vs : list C) : Prop :=
  match h with
  | HPow => match args with [_; Num q] => wd_cpowQ (chd0 vs) q | _ => chd0 vs <> 0 end
  | HLog => chd0 vs <> 0
  | HCos | HSin | HAtan | HSign => isreal (chd0 vs)
  | HTan => isreal (chd0 vs) /\ cos (fst (chd0 vs)) <> 0%R
  | HAcos | HAsin => isreal (chd0 vs) /\ (-1 <= fst (chd0 vs) <= 1)%R
  | HAtan2 => isreal (chd0 vs) /\ isreal (chd1 vs) /\ (fst (chd0 vs) <> 0%R \/ fst (chd1 vs) <> 0%R)
  | HLt | HLe | HGt | HGe => isreal (chd0 vs) /\ isreal (chd1 vs)
  | HOr | HNaN | HInf | HNegInf | HZoo | HTuple | HIndexed | HStr | HPair => False
  | _ => True
  end.

Fixpoint wdC (ρ : envC) (e : expr) : Prop :=
  match e with
  | Sym _ | Num _ => True
  | App HPiecewise args =>
      (fix pw (l : list expr) : Prop :=
         match l with
         | v :: c :: rest =>
             wdC ρ c /\ (if Req_EM_T (fst (denC ρ c)) 0 then pw rest else wdC ρ v)
         | _ => False
         end) args
  | App h args =>
      (fix all (l : list expr) : Prop :=
         match l with [] => True | x :: l' => wdC ρ x /\ all l' end) args
      /\ wd_headC h args (map (denC ρ) args)
  end.

Fixpoint clookup (l : list (string * C)) (s : string) : C :=
  match l with
  | [] => 0
  | (k, v) :: l' => if String.eqb k s then v else clookup l' s
  end.
Definition envC_of (l : list (string * C)) (f : string -> list C -> C) : envC :=
  {| csym := clookup l; cfn := f |}.

Ltac denC_simpl :=
  cbv [denC wdC appC wd_headC map fold_right chd0 chd1 cpowQ wd_cpowQ CpowZ Cpow_pos Q2C CofZ CofPos
       Qnum Qden Pos.iter_op piecewiseC envC_of csym cfn clookup String.eqb Ascii.eqb Bool.eqb].
Ltac denC_simpl_in H :=
  cbv [denC wdC appC wd_headC map fold_right chd0 chd1 cpowQ wd_cpowQ CpowZ Cpow_pos Q2C CofZ CofPos
       Qnum Qden Pos.iter_op piecewiseC envC_of csym cfn clookup String.eqb Ascii.eqb Bool.eqb] in H.

Lemma Q2C_R q : Q2C q = RtoC (Q2R' q).
Proof.
  destruct q as [n d]. unfold Q2C, Q2R'. cbn [Qnum Qden].
  destruct d as [d'|d'|]; rewrite ?CofZ_R, ?CofPos_R, ?Cdiv_R; try reflexivity.
  f_equal. unfold Rdiv. rewrite Rinv_1. ring.
Qed.

(* unfold the tree but keep numerals as [RtoC (Q2R' q)], ready for [lift_R] *)
Ltac denC_simplR :=
  cbv [denC wdC appC wd_headC map fold_right chd0 chd1 cpowQ wd_cpowQ Qnum Qden
       piecewiseC envC_of csym cfn clookup String.eqb Ascii.eqb Bool.eqb];
  rewrite ?Q2C_R;
  cbv [Q2R' Qnum Qden].
