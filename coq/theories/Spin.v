(** Model of [ampform.helicity.align._spin.create_spin_range] (MODEL ONLY, proofs in Spin_proofs.v).

    Python (current /repo):
<<
    spin_magnitude_float = float(spin_magnitude)
    spin_projections = []
    projection = Decimal(-spin_magnitude_float)
    while projection <= spin_magnitude_float:
        if projection == -0.0: projection = Decimal("0.0")
        spin_projections.append(float(projection))
        projection += 1
    if no_zero_spin and len(spin_projections) > 1 and 0.0 in spin_projections:
        spin_projections.remove(0.0)
    return spin_projections
>>
    Values are represented exactly in units of 1/u (u = 2: half-integers, the case of interest;
    u = 4, 8 are used only by the correspondence run to cover dyadic non-half-integer inputs,
    which are exact in float and Decimal).  The magnitude is n/u, one loop step adds u. *)
From Coq Require Import ZArith List Bool.
Import ListNotations.
Open Scope Z_scope.

(** The [while] loop: [fuel] bounds the number of iterations (shown sufficient in
    Spin_proofs.v: the result for the fuel used below never depends on it). *)
Fixpoint spin_loop (fuel : nat) (p hi step : Z) : list Z :=
  match fuel with
  | O => []
  | S f => if p <=? hi then p :: spin_loop f (p + step) hi step else []
  end.

(** [list.remove(x)]: removes the first occurrence, raises ValueError ([None]) when absent. *)
Fixpoint remove_first (x : Z) (l : list Z) : option (list Z) :=
  match l with
  | [] => None
  | y :: t => if y =? x then Some t
              else match remove_first x t with Some t' => Some (y :: t') | None => None end
  end.

Definition memZ (x : Z) (l : list Z) : bool := existsb (Z.eqb x) l.

Definition spin_projections (u : Z) (n : Z) : list Z :=
  spin_loop (Z.to_nat (2 * n) + 2) (- n) n u.

(** current code *)
Definition spin_range_u (u : Z) (n : Z) (no_zero : bool) : option (list Z) :=
  let l := spin_projections u n in
  if no_zero && (1 <? length l)%nat && memZ 0 l then remove_first 0 l else Some l.

(** code before the fix ed25df5: unconditional [remove(0.0)] *)
Definition spin_range_u_pinned (u : Z) (n : Z) (no_zero : bool) : option (list Z) :=
  let l := spin_projections u n in
  if no_zero && (1 <? length l)%nat then remove_first 0 l else Some l.

(** Half-integer units: [s2] = 2 s. *)
Definition spin_range (s2 : nat) (no_zero : bool) : option (list Z) :=
  spin_range_u 2 (Z.of_nat s2) no_zero.
Definition spin_range_pinned (s2 : nat) (no_zero : bool) : option (list Z) :=
  spin_range_u_pinned 2 (Z.of_nat s2) no_zero.

(** The specification list  -s2, -s2+2, ..., s2. *)
Definition full_range (s2 : nat) : list Z :=
  map (fun k => - Z.of_nat s2 + 2 * Z.of_nat k) (seq 0 (S s2)).
