(* Cache.v — hand-written model of ampform.sympy.perform_cached_doit and of the directory
   it works on (property C16).  MODEL ONLY: proofs are in coq/props/C16_lemmas.v.

   Anchors (current /repo):
     src/ampform/sympy/__init__.py  perform_cached_doit, _load_cached_doit, _dump_atomically
     src/ampform/sympy/_cache.py    get_readable_hash   (= [keyf], left abstract)

   What is modelled
   ----------------
   * The cache directory is a map  key -> option content  ("<key>.pkl").  The content of a
     file is abstracted to what [pickle.load] makes of it:
        Valid src res  a pickled 2-tuple (src, res), src a sympy.Basic      (format of the current code)
        Legacy res     a pickled bare expression                            (format of the pinned code)
        Junk           any other stream that loads (an int, a 3-tuple, a tuple whose head is no Basic)
        Garbage        any byte string whose load raises.  RUNTIME ASSUMPTION (named in the runner,
                       exercised exhaustively by the harness): EVERY STRICT PREFIX of a pickle
                       stream is Garbage, and so is the empty file.
        Blocked        the name is taken by something that is no regular file (a directory):
                       open() raises an OSError and os.replace onto it raises.
   * Temporary files of the robust writer are PRIVATE (tempfile.mkstemp: O_EXCL, unique name,
     never matching "<key>.pkl", never opened by anybody else).  Their content is therefore a
     function of the owner's own state ([tmp_content]) and needs no entry in the shared map.
   * [keyf : expr -> key] and [doit : expr -> expr] are Section variables: every statement holds
     for ANY key function (any hash seed; sha256(str(e)), which identifies expressions that print
     identically; a constant function) and any unfolding function.
   * [expr_eqb] is SymPy's structural [==] used by [_load_cached_doit].
   * One call = one process, a small-step machine.  The system is a list of processes over one
     directory; an [action] says who moves.  Sequential calls of one OS process are calls that are
     scheduled one after the other, so "any interleaving" covers them.
   * Two variants of the read/write steps:
        Robust  the current code: tolerant + verified load, temp file + atomic rename
        Pinned  the code before commit 7aad13b: exists(); unchecked load of a bare [res];
                open(target,'wb') truncates the target, chunked writes into it.            *)
From Coq Require Import List Arith Bool.
Import ListNotations.

Section Cache.
Variable expr : Type.
Variable key : Type.
Variable expr_eqb : expr -> expr -> bool.
Variable key_eqb : key -> key -> bool.
Variable keyf : expr -> key.
Variable doit : expr -> expr.
(* can pickle.dump serialise (e, e.doit())?  False for an expression that carries a lambda or a
   local function as non-SymPy attribute: pickle.dump raises PicklingError/AttributeError/TypeError *)
Variable picklable : expr -> bool.

Inductive content :=
| Valid (src res : expr)
| Legacy (res : expr)
| Junk
| Garbage
| Blocked.

Inductive variant := Robust | Pinned.

(* what a completed call hands back *)
Inductive value :=
| VExpr (r : expr)          (* an expression *)
| VTuple (s r : expr)       (* Pinned reading a Valid file returns the tuple itself *)
| VJunk.                    (* Pinned reading a Junk file returns that object *)

Inductive pstate :=
| PStart (e : expr)                          (* perform_cached_doit(e, dir) entered; its first step also does
                                                cache_directory.mkdir(exist_ok=True, parents=True): idempotent and
                                                race-free, so 'directory absent' needs no state of its own; exercised
                                                by the cold-start histories of the harness *)
| PKeyed (e : expr) (k : key)                (* h = get_readable_hash(e); about to look at <k>.pkl *)
| PExists (e : expr) (k : key)               (* Pinned only: filename.exists() was True *)
| PMiss (e : expr) (k : key)                 (* nothing usable in the cache *)
| PComputed (e : expr) (k : key) (r : expr)  (* r = e.doit() done *)
| PWriting (e : expr) (k : key) (r : expr)   (* output file open, a strict prefix written *)
| PWritten (e : expr) (k : key) (r : expr)   (* Robust only: temp file complete and closed *)
| PDone (e : expr) (v : value)               (* returned v *)
| PRaised (e : expr)                         (* raised an exception *)
| PCrashed (e : expr).                       (* killed *)

(* content of the private temp file of a Robust process *)
Definition tmp_content (p : pstate) : option content :=
  match p with
  | PWriting _ _ _ => Some Garbage
  | PWritten e _ r => Some (Valid e r)
  | _ => None
  end.

Record sys := mkSys { dir : key -> option content; procs : list pstate }.

Definition upd (d : key -> option content) (k : key) (c : option content) : key -> option content :=
  fun k' => if key_eqb k k' then c else d k'.

Fixpoint set_nth (l : list pstate) (i : nat) (p : pstate) : list pstate :=
  match l, i with
  | [], _ => []
  | _ :: t, O => p :: t
  | h :: t, S j => h :: set_nth t j p
  end.

Definition setp (s : sys) (i : nat) (p : pstate) : sys := mkSys (dir s) (set_nth (procs s) i p).
Definition setdp (s : sys) (k : key) (c : option content) (i : nat) (p : pstate) : sys :=
  mkSys (upd (dir s) k c) (set_nth (procs s) i p).
Definition setd (s : sys) (k : key) (c : option content) : sys := mkSys (upd (dir s) k c) (procs s).

(* one step of process [i] *)
Definition do_step (v : variant) (s : sys) (i : nat) : sys :=
  match nth_error (procs s) i with
  | None => s
  | Some p =>
    match p with
    | PStart e => setp s i (PKeyed e (keyf e))
    | PKeyed e k =>
        match v with
        | Robust =>                                   (* _load_cached_doit: open + load + checks *)
            match dir s k with
            | Some (Valid src res) =>
                if expr_eqb src e then setp s i (PDone e (VExpr res)) else setp s i (PMiss e k)
            | _ => setp s i (PMiss e k)               (* absent / raises / not a 2-tuple of a Basic *)
            end
        | Pinned =>                                   (* if filename.exists(): *)
            match dir s k with
            | None => setp s i (PMiss e k)
            | Some _ => setp s i (PExists e k)
            end
        end
    | PExists e k =>                                  (* Pinned: return pickle.load(open(filename)) *)
        match dir s k with
        | Some (Legacy r) => setp s i (PDone e (VExpr r))
        | Some (Valid a b) => setp s i (PDone e (VTuple a b))
        | Some Junk => setp s i (PDone e VJunk)
        | Some Garbage | Some Blocked | None => setp s i (PRaised e)
        end
    | PMiss e k => setp s i (PComputed e k (doit e))
    | PComputed e k r =>
        match v with
        | Robust => setp s i (PWriting e k r)         (* mkstemp: private, empty *)
        | Pinned =>                                   (* open(filename,'wb'): truncates the target *)
            match dir s k with
            | Some Blocked => setp s i (PRaised e)
            | _ => setdp s k (Some Garbage) i (PWriting e k r)
            end
        end
    | PWriting e k r =>                               (* last chunk + close, or pickle.dump raises *)
        match v with
        | Robust =>
            if picklable e then setp s i (PWritten e k r)
            else setp s i (PDone e (VExpr r))         (* since e4bf90e: temp removed, warning, result returned;
                                                         the shared directory is untouched *)
        | Pinned =>
            if picklable e then setdp s k (Some (Legacy r)) i (PDone e (VExpr r))
            else setp s i (PRaised e)                 (* the exception escapes, the target stays truncated *)
        end
    | PWritten e k r =>                               (* os.replace(tmp, filename); return *)
        match dir s k with
        | Some Blocked => setp s i (PRaised e)
        | _ => setdp s k (Some (Valid e r)) i (PDone e (VExpr r))
        end
    | PDone _ _ | PRaised _ | PCrashed _ => s
    end
  end.

(* a non-final chunk is written *)
Definition do_chunk (v : variant) (s : sys) (i : nat) : sys :=
  match v, nth_error (procs s) i with
  | Pinned, Some (PWriting e k r) => setd s k (Some Garbage)
  | _, _ => s
  end.

Definition do_crash (s : sys) (i : nat) : sys :=
  match nth_error (procs s) i with
  | Some (PStart e) | Some (PKeyed e _) | Some (PExists e _) | Some (PMiss e _)
  | Some (PComputed e _ _) | Some (PWriting e _ _) | Some (PWritten e _ _) => setp s i (PCrashed e)
  | _ => s
  end.

(* phases used by the harness to drive real processes to their synchronisation points *)
Inductive phase := AtRead | AtDump | AtReplace | AtEnd.

Definition terminal (p : pstate) : bool :=
  match p with PDone _ _ | PRaised _ | PCrashed _ => true | _ => false end.

Definition at_phase (ph : phase) (p : pstate) : bool :=
  terminal p ||
  match ph, p with
  | AtRead, PKeyed _ _ | AtRead, PExists _ _ => true   (* about to open(filename,'rb') *)
  | AtDump, PWriting _ _ _ => true                     (* inside pickle.dump *)
  | AtReplace, PWritten _ _ _ => true                  (* about to os.replace *)
  | _, _ => false
  end.

Fixpoint run_to (v : variant) (fuel : nat) (s : sys) (i : nat) (ph : phase) : sys :=
  match fuel with
  | O => s
  | S f =>
      match nth_error (procs s) i with
      | None => s
      | Some p => if at_phase ph p then s else run_to v f (do_step v s i) i ph
      end
  end.

Inductive action :=
| Spawn (e : expr)                   (* a new call starts *)
| Step (i : nat)                     (* call i performs its next step *)
| Chunk (i : nat)                    (* call i writes one more non-final chunk *)
| Crash (i : nat)                    (* the process running call i is killed *)
| RunTo (i : nat) (ph : phase)       (* = Step i repeated until the phase (or the end) is reached *)
| EnvTrunc (k : key)                 (* somebody cuts <k>.pkl to a strict prefix *)
| EnvDelete (k : key)
| EnvGarbage (k : key)               (* unloadable bytes / empty file appear under <k>.pkl *)
| EnvJunk (k : key)
| EnvLegacy (k : key) (r : expr)     (* file in the pinned format *)
| EnvValid (k : key) (src : expr)    (* a correct file for [src] appears under the name <k>.pkl *)
| EnvBlock (k : key).                (* mkdir <k>.pkl *)

Definition step (v : variant) (s : sys) (a : action) : sys :=
  match a with
  | Spawn e => mkSys (dir s) (procs s ++ [PStart e])
  | Step i => do_step v s i
  | Chunk i => do_chunk v s i
  | Crash i => do_crash s i
  | RunTo i ph => run_to v 8 s i ph
  | EnvTrunc k =>
      match dir s k with
      | Some Blocked | None => s
      | Some _ => setd s k (Some Garbage)
      end
  | EnvDelete k => setd s k None
  | EnvGarbage k => setd s k (Some Garbage)
  | EnvJunk k => setd s k (Some Junk)
  | EnvLegacy k r => setd s k (Some (Legacy r))
  | EnvValid k src => setd s k (Some (Valid src (doit src)))
  | EnvBlock k => setd s k (Some Blocked)
  end.

Definition run (v : variant) (acts : list action) (s : sys) : sys := fold_left (step v) acts s.

Definition empty_dir : key -> option content := fun _ => None.
Definition init (d : key -> option content) : sys := mkSys d [].

(* a complete, undisturbed call: spawned as process number n and run to its end *)
Definition call (n : nat) (e : expr) : list action := [Spawn e; RunTo n AtEnd].

Fixpoint seq_calls (n : nat) (es : list expr) : list action :=
  match es with
  | [] => []
  | e :: t => call n e ++ seq_calls (S n) t
  end.

(* progress measure: number of own steps a call still has to take at most *)
Definition rank (p : pstate) : nat :=
  match p with
  | PStart _ => 6 | PKeyed _ _ => 5 | PMiss _ _ => 4 | PComputed _ _ _ => 3
  | PWriting _ _ _ => 2 | PWritten _ _ _ => 1 | PExists _ _ => 1
  | PDone _ _ | PRaised _ | PCrashed _ => 0
  end.

(* the expression a call is about *)
Definition pexpr (p : pstate) : expr :=
  match p with
  | PStart e | PKeyed e _ | PExists e _ | PMiss e _ | PComputed e _ _ | PWriting e _ _
  | PWritten e _ _ | PDone e _ | PRaised e | PCrashed e => e
  end.
Definition crashed (p : pstate) : bool := match p with PCrashed _ => true | _ => false end.

Definition is_block (a : action) : bool := match a with EnvBlock _ => true | _ => false end.
Definition is_crash_of (i : nat) (a : action) : bool :=
  match a with Crash j => Nat.eqb i j | _ => false end.
Definition is_step_of (i : nat) (a : action) : bool :=
  match a with Step j => Nat.eqb i j | _ => false end.

End Cache.

Arguments Valid {expr}. Arguments Legacy {expr}. Arguments Junk {expr}. Arguments Garbage {expr}.
Arguments Blocked {expr}.
Arguments VExpr {expr}. Arguments VTuple {expr}. Arguments VJunk {expr}.
Arguments PStart {expr key}. Arguments PKeyed {expr key}. Arguments PExists {expr key}.
Arguments PMiss {expr key}. Arguments PComputed {expr key}. Arguments PWriting {expr key}.
Arguments PWritten {expr key}. Arguments PDone {expr key}. Arguments PRaised {expr key}.
Arguments PCrashed {expr key}.
Arguments Spawn {expr key}. Arguments Step {expr key}. Arguments Chunk {expr key}.
Arguments Crash {expr key}. Arguments RunTo {expr key}. Arguments EnvTrunc {expr key}.
Arguments EnvDelete {expr key}. Arguments EnvGarbage {expr key}. Arguments EnvJunk {expr key}.
Arguments EnvLegacy {expr key}. Arguments EnvValid {expr key}. Arguments EnvBlock {expr key}.
Arguments mkSys {expr key}. Arguments dir {expr key}. Arguments procs {expr key}.
Arguments init {expr key}. Arguments empty_dir {expr key}.
Arguments terminal {expr key}. Arguments rank {expr key}. Arguments tmp_content {expr key}.
Arguments pexpr {expr key}. Arguments crashed {expr key}.
Arguments is_block {expr key}. Arguments is_crash_of {expr key}. Arguments is_step_of {expr key}.
Arguments call {expr key}. Arguments seq_calls {expr key}.

(* ------------------------------------------------------------------------------------------ *)
(* Executable instance over nat, used by the refutation witnesses and by the correspondence    *)
(* run (build/C16/Cases_C16_*.v): expressions and keys are table indices, [keyf] and [doit]    *)
(* are tables MEASURED on the real get_readable_hash / doit() by the harness.                  *)
Module NatCache.
Definition tab (t : list nat) (d : nat) (e : nat) : nat := nth e t d.

(* ptab: 1 = picklable, 0 = not; expressions beyond the table are picklable *)
Definition nstep v (ktab dtab ptab : list nat) :=
  step nat nat Nat.eqb Nat.eqb (tab ktab 0) (tab dtab 0) (fun e => Nat.eqb (tab ptab 1 e) 1) v.
Definition nrun v (ktab dtab ptab : list nat) acts s := fold_left (nstep v ktab dtab ptab) acts s.

(* observation of a state: outcome code per call, content code per key 0..nk-1 *)
Definition ocode (p : pstate nat nat) : nat :=
  match p with
  | PDone _ (VExpr r) => r        (* harness numbers results from 100 upwards *)
  | PDone _ (VTuple _ _) => 1
  | PDone _ VJunk => 2
  | PRaised _ => 3
  | PCrashed _ => 4
  | _ => 5                        (* not finished *)
  end.
Definition ccode (c : option (content nat)) : list nat :=
  match c with
  | None => [0]
  | Some Garbage => [1]
  | Some Junk => [2]
  | Some Blocked => [3]
  | Some (Legacy r) => [4; r]
  | Some (Valid s r) => [5; s; r]
  end.
Definition observe (nk : nat) (s : sys nat nat) : list nat * list (list nat) :=
  (map ocode (procs s), map (fun k => ccode (dir s k)) (seq 0 nk)).

(* a history is a list of operations, an operation a list of actions; one observation per op *)
Fixpoint ntrace v ktab dtab ptab nk (ops : list (list (action nat nat))) (s : sys nat nat) :=
  match ops with
  | [] => []
  | o :: t => let s' := nrun v ktab dtab ptab o s in observe nk s' :: ntrace v ktab dtab ptab nk t s'
  end.
Definition history v ktab dtab ptab nk ops := ntrace v ktab dtab ptab nk ops (init empty_dir).
End NatCache.

(* ------------------------------------------------------------------------------------------ *)
(* Which key function is used: ampform.sympy._cache._get_python_hash_seed / get_readable_hash  *)
(* select on the value of the environment variable PYTHONHASHSEED AT CALL TIME:                *)
(*   unset, "", "random", any string that is not all (ASCII) digits  -> sha256(str(expr))       *)
(*   a non-empty string of digits n                                  -> hash(expr) under seed n *)
(* (tied to the real helper over a list of environment values by the correspondence run;       *)
(*  non-ASCII "digits" such as superscripts are outside this model)                            *)
From Coq Require Import Ascii String NArith.
Module HashMode.
Open Scope N_scope.
Inductive envval := EnvUnset | EnvStr (s : string).
Inductive keymode := Sha256 | PyHash (seed : N).

Definition is_digit (c : ascii) : bool := let n := N_of_ascii c in (48 <=? n) && (n <=? 57).
Fixpoint all_digits (s : string) : bool :=
  match s with EmptyString => true | String c t => is_digit c && all_digits t end.
Definition isdigit (s : string) : bool :=            (* str.isdigit on ASCII strings *)
  match s with EmptyString => false | _ => all_digits s end.
Fixpoint parse_acc (acc : N) (s : string) : N :=     (* int(s) for a string of digits *)
  match s with EmptyString => acc | String c t => parse_acc (acc * 10 + (N_of_ascii c - 48)) t end.

Definition hash_mode (v : envval) : keymode :=
  match v with
  | EnvUnset => Sha256
  | EnvStr s => if isdigit s then PyHash (parse_acc 0 s) else Sha256
  end.

Definition mode_code (m : keymode) : N := match m with Sha256 => 0 | PyHash n => N.succ n end.
End HashMode.
