(* PoolSum.v — hand-written executable model of ampform.sympy.PoolSum
   (src/ampform/sympy/__init__.py, class PoolSum) and of the unfolding loop of
   HelicityModel.expression (src/ampform/helicity/__init__.py, unfold_poolsums).
   Model only; the proofs are in PoolSum_proofs.v.  Independent of /repo: tied to the
   code by the correspondence run of runners/C18.py (vm_compute vs implementation). *)
From Coq Require Import String List ZArith Bool Arith DecimalString.
Import ListNotations.
Open Scope string_scope.

(* ------------------------------------------------------------------ *)
(* Expressions: symbols, rationals n/d, Add, Mul, Pow, applications of *)
(* uninterpreted functions, and the PoolSum node                       *)
(*   PSum body [(i1, [v11; v12; ...]); (i2, [...]); ...].              *)
(* ------------------------------------------------------------------ *)
Inductive expr :=
| Sym (s : string)
| Num (n : Z) (d : positive)
| Add (l : list expr)
| Mul (l : list expr)
| Pow (b e : expr)
| Fn (f : string) (l : list expr)
| PSum (body : expr) (idx : list (string * list expr)).

Notation index := (string * list expr)%type (only parsing).

Definition names (idx : list index) : list string := map fst idx.
Definition pools (idx : list index) : list (list expr) := map snd idx.
Definition mem (x : string) (l : list string) : bool := existsb (String.eqb x) l.
Definition map_pools (f : expr -> expr) (idx : list index) : list index :=
  map (fun p => (fst p, map f (snd p))) idx.

Definition list_eqb {A} (eqb : A -> A -> bool) : list A -> list A -> bool :=
  fix go xs ys :=
    match xs, ys with
    | [], [] => true
    | x :: xs', y :: ys' => eqb x y && go xs' ys'
    | _, _ => false
    end.

(* SymPy's structural [==] *)
Fixpoint expr_eqb (a b : expr) {struct a} : bool :=
  match a, b with
  | Sym s, Sym t => String.eqb s t
  | Num n d, Num m e => Z.eqb n m && Pos.eqb d e
  | Add l, Add r => list_eqb expr_eqb l r
  | Mul l, Mul r => list_eqb expr_eqb l r
  | Pow b1 e1, Pow b2 e2 => expr_eqb b1 b2 && expr_eqb e1 e2
  | Fn f l, Fn g r => String.eqb f g && list_eqb expr_eqb l r
  | PSum b1 i1, PSum b2 i2 =>
      expr_eqb b1 b2 &&
      list_eqb (fun p q => String.eqb (fst p) (fst q) && list_eqb expr_eqb (snd p) (snd q)) i1 i2
  | _, _ => false
  end.

(* ------------------------------------------------------------------ *)
(* Python dict built from a sequence of pairs: first position, last value *)
(* ------------------------------------------------------------------ *)
Section Dict.
  Context {K B : Type} (keqb : K -> K -> bool).
  Fixpoint dict_set (k : K) (v : B) (d : list (K * B)) : list (K * B) :=
    match d with
    | [] => [(k, v)]
    | (k', v') :: r => if keqb k k' then (k', v) :: r else (k', v') :: dict_set k v r
    end.
  Definition dict_of (l : list (K * B)) : list (K * B) :=
    fold_left (fun d p => dict_set (fst p) (snd p) d) l [].
  Fixpoint lookup (d : list (K * B)) (k : K) : option B :=
    match d with
    | [] => None
    | (k', v) :: r => if keqb k k' then Some v else lookup r k
    end.
End Dict.

(* itertools.product: row-major *)
Fixpoint product {A} (ps : list (list A)) : list (list A) :=
  match ps with
  | [] => [[]]
  | p :: r => flat_map (fun a => map (cons a) (product r)) p
  end.

(* ------------------------------------------------------------------ *)
(* free symbols                                                        *)
(* ------------------------------------------------------------------ *)
Definition remove_all (ns l : list string) : list string :=
  filter (fun s => negb (mem s ns)) l.

(* PoolSum.free_symbols: super().free_symbols - {index symbols}; the super() value is the
   union over all args: the summand and the Tuple(idx, Tuple(values...)) of every index. *)
Fixpoint free_symbols (e : expr) : list string :=
  match e with
  | Sym s => [s]
  | Num _ _ => []
  | Add l | Mul l | Fn _ l => flat_map free_symbols l
  | Pow b x => free_symbols b ++ free_symbols x
  | PSum b idx =>
      remove_all (names idx)
        (free_symbols b ++ flat_map (fun p => fst p :: flat_map free_symbols (snd p)) idx)
  end.

(* The specification-side notion: the summand's variables minus the indices, plus the
   variables of the pool values (which live in the OUTER scope). *)
Fixpoint fv (e : expr) : list string :=
  match e with
  | Sym s => [s]
  | Num _ _ => []
  | Add l | Mul l | Fn _ l => flat_map fv l
  | Pow b x => fv b ++ fv x
  | PSum b idx => remove_all (names idx) (fv b) ++ flat_map (fun p => flat_map fv (snd p)) idx
  end.

(* all index symbols bound anywhere inside e *)
Fixpoint binders (e : expr) : list string :=
  match e with
  | Sym _ | Num _ _ => []
  | Add l | Mul l | Fn _ l => flat_map binders l
  | Pow b x => binders b ++ binders x
  | PSum b idx => names idx ++ binders b ++ flat_map (fun p => flat_map binders (snd p)) idx
  end.

Fixpoint psum_freeb (e : expr) : bool :=
  match e with
  | Sym _ | Num _ _ => true
  | Add l | Mul l | Fn _ l => forallb psum_freeb l
  | Pow b x => psum_freeb b && psum_freeb x
  | PSum _ _ => false
  end.

(* PoolSum nesting depth *)
Definition lmax (l : list nat) : nat := fold_right Nat.max 0 l.
Fixpoint depth (e : expr) : nat :=
  match e with
  | Sym _ | Num _ _ => 0
  | Add l | Mul l | Fn _ l => lmax (map depth l)
  | Pow b x => Nat.max (depth b) (depth x)
  | PSum b idx => S (Nat.max (depth b) (lmax (map (fun p => lmax (map depth (snd p))) idx)))
  end.

Definition disjointb (a b : list string) : bool := forallb (fun s => negb (mem s b)) a.
Fixpoint nodupb (l : list string) : bool :=
  match l with
  | [] => true
  | x :: r => negb (mem x r) && nodupb r
  end.

(* Well-formedness = the hypothesis of the theorems ("values closed"):
   in every PoolSum node the index symbols are distinct, every pool is non-empty, and
   every pool value contains no PoolSum and mentions no symbol that is used as a
   summation index by this node or inside its summand. *)
Fixpoint wfb (e : expr) : bool :=
  match e with
  | Sym _ | Num _ _ => true
  | Add l | Mul l | Fn _ l => forallb wfb l
  | Pow b x => wfb b && wfb x
  | PSum b idx =>
      wfb b && nodupb (names idx) &&
      forallb (fun p =>
                 negb (Nat.eqb (length (snd p)) 0) &&
                 forallb (fun v => psum_freeb v && disjointb (fv v) (names idx ++ binders b))
                         (snd p)) idx
  end.
Definition wf (e : expr) : Prop := wfb e = true.

(* ------------------------------------------------------------------ *)
(* xreplace (Basic._xreplace + PoolSum._xreplace) and subs              *)
(* ------------------------------------------------------------------ *)
Definition rule := list (expr * expr).

Definition key_not_bound (ns : list string) (kv : expr * expr) : bool :=
  match fst kv with
  | Sym s => negb (mem s ns)
  | _ => true
  end.

Fixpoint xreplace (r : rule) (e : expr) {struct e} : expr :=
  match lookup expr_eqb r e with
  | Some v => v
  | None =>
      match e with
      | Sym _ | Num _ _ => e
      | Add l => Add (map (xreplace r) l)
      | Mul l => Mul (map (xreplace r) l)
      | Pow b x => Pow (xreplace r b) (xreplace r x)
      | Fn f l => Fn f (map (xreplace r) l)
      | PSum b idx =>
          let r' := filter (key_not_bound (names idx)) r in
          match r' with
          | [] => e
          | _ => PSum (xreplace r' b) (map (fun p => (fst p, map (xreplace r') (snd p))) idx)
          end
      end
  end.

(* expr._subs(Symbol x, v) with PoolSum._eval_subs: the indices are bound *)
Fixpoint subs1 (x : string) (v : expr) (e : expr) {struct e} : expr :=
  match e with
  | Sym s => if String.eqb s x then v else e
  | Num _ _ => e
  | Add l => Add (map (subs1 x v) l)
  | Mul l => Mul (map (subs1 x v) l)
  | Pow b y => Pow (subs1 x v b) (subs1 x v y)
  | Fn f l => Fn f (map (subs1 x v) l)
  | PSum b idx =>
      if mem x (names idx) then e
      else PSum (subs1 x v b) (map (fun p => (fst p, map (subs1 x v) (snd p))) idx)
  end.

(* expr.subs([(x1,v1), (x2,v2), ...]): sequential *)
Definition subs_seq (s : list (string * expr)) (e : expr) : expr :=
  fold_left (fun acc p => subs1 (fst p) (snd p) acc) s e.

(* ------------------------------------------------------------------ *)
(* evaluate / doit                                                     *)
(* ------------------------------------------------------------------ *)
Definition evaluate (e : expr) : expr :=
  match e with
  | PSum b idx =>
      let d := dict_of String.eqb idx in
      Add (map (fun combi => subs_seq (combine (names d) combi) b) (product (pools d)))
  | _ => e
  end.

(* PoolSum.doit(deep=True) = evaluate().doit(); Basic.doit rebuilds every node from the
   doit of its args.  The fuel counts PoolSum unfoldings (doit = doitF (S (depth e))). *)
Fixpoint doitF (n : nat) : expr -> expr :=
  match n with
  | 0 => fun e => e
  | S n' =>
      fix go (e : expr) : expr :=
        match e with
        | Sym _ | Num _ _ => e
        | Add l => Add (map go l)
        | Mul l => Mul (map go l)
        | Pow b x => Pow (go b) (go x)
        | Fn f l => Fn f (map go l)
        | PSum _ _ => doitF n' (evaluate e)
        end
  end.
Definition doit (e : expr) : expr := doitF (S (depth e)) e.

(* ------------------------------------------------------------------ *)
(* cleanup                                                             *)
(* ------------------------------------------------------------------ *)
Definition cleanup (e : expr) : expr :=
  match e with
  | PSum b idx =>
      let fs := free_symbols b in
      let used := filter (fun p => mem (fst p) fs && negb (Nat.eqb (length (snd p)) 0)) idx in
      let singles := filter (fun p => Nat.eqb (length (snd p)) 1) used in
      let multi := filter (fun p => negb (Nat.eqb (length (snd p)) 1)) used in
      let substitutions :=
        dict_of String.eqb (map (fun p => (fst p, hd (Num 0 1) (snd p))) singles) in
      let b' := xreplace (map (fun kv => (Sym (fst kv), snd kv)) substitutions) b in
      match multi with
      | [] => b'
      | _ => PSum b' multi
      end
  | _ => e
  end.

(* ------------------------------------------------------------------ *)
(* HelicityModel.expression: unfold_poolsums                            *)
(* ------------------------------------------------------------------ *)
(* the PoolSum nodes met by sp.postorder_traversal, in order *)
Fixpoint psum_nodes (e : expr) : list expr :=
  match e with
  | Sym _ | Num _ _ => []
  | Add l | Mul l | Fn _ l => flat_map psum_nodes l
  | Pow b x => psum_nodes b ++ psum_nodes x
  | PSum b idx =>
      psum_nodes b ++ flat_map (fun p => flat_map psum_nodes (snd p)) idx ++ [e]
  end.

Definition unfold_poolsums (e : expr) : expr :=
  fold_left (fun acc node => xreplace [(node, evaluate node)] acc) (psum_nodes e) e.

(* intensity.evaluate() followed by unfold_poolsums *)
Definition model_expression (intensity : expr) : expr := unfold_poolsums (evaluate intensity).

(* ------------------------------------------------------------------ *)
(* Denotation into any structure with a sum that has a right unit      *)
(* (every commutative ring; [Ralg] in PoolSum_proofs.v).  Pow and the    *)
(* function symbols are interpreted by the structure (uninterpreted).  *)
(* ------------------------------------------------------------------ *)
Record alg := {
  V : Type;
  vzero : V; vadd : V -> V -> V;
  vone : V; vmul : V -> V -> V;
  vpow : V -> V -> V;
  vnum : Z -> positive -> V;
  vfun : string -> list V -> V;
  vadd_0_r : forall x, vadd x vzero = x;
}.

Section Den.
  Variable A : alg.
  Definition env := string -> V A.
  Definition vsum (l : list (V A)) : V A := fold_right (vadd A) (vzero A) l.
  Definition vprod (l : list (V A)) : V A := fold_right (vmul A) (vone A) l.
  Definition upd (rho : env) (x : string) (d : V A) : env :=
    fun s => if String.eqb s x then d else rho s.
  (* bind i1:=d1, then i2:=d2, ... (an inner = later binding shadows an earlier one) *)
  Definition bind (rho : env) (l : list (string * V A)) : env :=
    fold_left (fun r p => upd r (fst p) (snd p)) l rho.

  (* PSum body idx  denotes  SUM over (d1..dn) in pool1 x ... x pooln (row-major) of
     [[body]] with i1:=d1 ... in:=dn; the pool values are read in the outer environment. *)
  Fixpoint den (rho : env) (e : expr) {struct e} : V A :=
    match e with
    | Sym s => rho s
    | Num n d => vnum A n d
    | Add l => vsum (map (den rho) l)
    | Mul l => vprod (map (den rho) l)
    | Pow b x => vpow A (den rho b) (den rho x)
    | Fn f l => vfun A f (map (den rho) l)
    | PSum b idx =>
        vsum (map (fun dc => den (bind rho (combine (names idx) dc)) b)
                  (product (map (fun p => map (den rho) (snd p)) idx)))
    end.
End Den.
Arguments den {A} rho e.
Arguments upd {A} rho x d.
Arguments bind {A} rho l.
Arguments vsum {A} l.

(* ------------------------------------------------------------------ *)
(* printer used by the correspondence run (JSON text)                  *)
(* ------------------------------------------------------------------ *)
Definition q := """".
Definition show_Z (z : Z) : string := NilZero.string_of_int (Z.to_int z).
Definition show_pos (p : positive) : string := NilZero.string_of_uint (Pos.to_uint p).
Definition jstr (s : string) : string := q ++ s ++ q.
Fixpoint join (l : list string) : string :=
  match l with
  | [] => ""
  | [x] => x
  | x :: r => x ++ "," ++ join r
  end.
Definition jlist (l : list string) : string := "[" ++ join l ++ "]".

Fixpoint show (e : expr) : string :=
  match e with
  | Sym s => jlist [jstr "S"; jstr s]
  | Num n d => jlist [jstr "N"; jstr (show_Z n); jstr (show_pos d)]
  | Add l => jlist [jstr "A"; jlist (map show l)]
  | Mul l => jlist [jstr "M"; jlist (map show l)]
  | Pow b x => jlist [jstr "P"; show b; show x]
  | Fn f l => jlist [jstr "F"; jstr f; jlist (map show l)]
  | PSum b idx =>
      jlist [jstr "PS"; show b;
             jlist (map (fun p => jlist [jstr (fst p); jlist (map show (snd p))]) idx)]
  end.
Definition show_names (l : list string) : string := jlist (map jstr l).
Definition show_bool (b : bool) : string := if b then "true" else "false".
