(* Helicity_proofs.v — the expected expression tree denotes the helicity formula, for ALL data
   (any number of groups, topologies, chains, nodes; any spins) and ALL environments. *)
From AV Require Import Helicity.
Open Scope C_scope.

Section Proofs.
  Variable ρ : envC.
  Notation den := (denC ρ).

  Lemma den_mul l : den (App HMul l) = prodC (map den l).
  Proof. reflexivity. Qed.
  Lemma den_add l : den (App HAdd l) = sumC (map den l).
  Proof. reflexivity. Qed.

  Lemma prodC_app l1 l2 : prodC (l1 ++ l2) = prodC l1 * prodC l2.
  Proof.
    unfold prodC. induction l1 as [|x xs IH]; cbn [app fold_right].
    - now rewrite Cmult_1_l.
    - rewrite IH. now rewrite Cmult_assoc.
  Qed.

  Lemma prodC_opt_sym o : prodC (map den (opt_sym o)) = osym ρ o.
  Proof. destruct o; cbn; [apply Cmult_1_r|reflexivity]. Qed.
  Lemma prodC_opt_expr o : prodC (map den (opt_expr o)) = oexpr ρ o.
  Proof. destruct o; cbn; [apply Cmult_1_r|reflexivity]. Qed.
  Lemma prodC_opt_num o : prodC (map den (opt_num o)) = onum o.
  Proof. destruct o; cbn; [apply Cmult_1_r|reflexivity]. Qed.

  Lemma den_wigner n :
    den (wigner_expr n) = Dconj ρ (nJ n) (nM n) (na_l n - nb_l n) (csym ρ (nphi n)) (csym ρ (ntheta n)).
  Proof. reflexivity. Qed.

  Lemma prodC_cg n : prodC (map den (cg_exprs n)) = cg_sem ρ n.
  Proof.
    unfold cg_exprs, cg_sem. destruct (nLS n) as [[L S2]|]; [|reflexivity].
    cbn [map prodC fold_right]. unfold CGf, hq, half. cbn [denC appC map].
    now rewrite Cmult_1_r.
  Qed.

  Lemma den_node n : den (node_expr n) = node_sem ρ n.
  Proof.
    unfold node_expr, node_sem. rewrite den_mul, !map_app, !prodC_app.
    rewrite prodC_cg, prodC_opt_sym, prodC_opt_expr. cbn [map prodC fold_right]. rewrite den_wigner.
    now rewrite Cmult_1_r.
  Qed.

  Lemma den_chain c : den (chain_expr c) = chain_sem ρ c.
  Proof.
    unfold chain_expr, chain_sem. rewrite den_mul, !map_app, !prodC_app.
    rewrite prodC_opt_num, prodC_opt_sym. rewrite map_map.
    now rewrite (map_ext (fun x => den (node_expr x)) (node_sem ρ) den_node).
  Qed.

  Lemma den_amp chains : den (amp_expr chains) = amp_sem ρ chains.
  Proof.
    unfold amp_expr, amp_sem. rewrite den_add, map_map.
    now rewrite (map_ext (fun x => den (chain_expr x)) (chain_sem ρ) den_chain).
  Qed.

  Lemma den_group g : den (group_expr g) = group_sem ρ g.
  Proof.
    unfold group_expr, group_sem.
    change (den (App HPow [App HAbs [App HAdd (map amp_expr g)]; Num (2 # 1)]))
      with (RtoC (Cmod (den (App HAdd (map amp_expr g)))) * RtoC (Cmod (den (App HAdd (map amp_expr g))))).
    rewrite den_add, map_map.
    now rewrite (map_ext (fun x => den (amp_expr x)) (amp_sem ρ) den_amp).
  Qed.

  Theorem intensity_expr_denotes_formula gs : den (intensity_expr gs) = intensity_sem ρ gs.
  Proof.
    unfold intensity_expr, intensity_sem. rewrite den_add, map_map.
    now rewrite (map_ext (fun x => den (group_expr x)) (group_sem ρ) den_group).
  Qed.

  (* the intensity is real and non-negative: a sum of squared moduli *)
  Lemma group_sem_real_nonneg g : snd (group_sem ρ g) = 0%R /\ (0 <= fst (group_sem ρ g))%R.
  Proof.
    unfold group_sem. set (x := Cmod _). split.
    - cbn. ring.
    - cbn. rewrite Rmult_0_l, Rminus_0_r. apply Rle_0_sqr.
  Qed.

  (* well-definedness: the expected tree never divides, takes no root or logarithm *)
  Definition allwd (l : list expr) : Prop :=
    (fix all (l : list expr) : Prop := match l with [] => True | x :: l' => wdC ρ x /\ all l' end) l.
  Lemma allwd_app (l1 l2 : list expr) : allwd l1 -> allwd l2 -> allwd (l1 ++ l2)%list.
  Proof.
    induction l1 as [|x xs IHx]; intros Ha Hb; [exact Hb|].
    destruct Ha as [H1 H2]. split; [exact H1|]. apply IHx; assumption.
  Qed.
  Lemma allwd_map {A} (f : A -> expr) l : (forall a, wdC ρ (f a)) -> allwd (map f l).
  Proof. intros H. induction l as [|a l' IH]; cbn; [exact I|]. split; auto. Qed.
  Lemma wd_mul l : allwd l -> wdC ρ (App HMul l).
  Proof. intros H. cbn. split; [exact H|exact I]. Qed.
  Lemma wd_add l : allwd l -> wdC ρ (App HAdd l).
  Proof. intros H. cbn. split; [exact H|exact I]. Qed.

  (* the assigned lineshapes must themselves be well defined at the point *)
  Definition dyn_wd (n : hnode) : Prop := match ndyn n with Some e => wdC ρ e | None => True end.
  Definition chain_wd (c : hchain) : Prop := Forall dyn_wd (cnodes c).
  Definition data_wd (gs : list hgroup) : Prop := Forall (Forall (Forall chain_wd)) gs.

  Lemma allwd_map_Forall {A} (f : A -> expr) (P : A -> Prop) l :
    (forall a, P a -> wdC ρ (f a)) -> Forall P l -> allwd (map f l).
  Proof. intros H HF. induction HF as [|a l' Ha _ IH]; cbn; [exact I|]. split; auto. Qed.

  Lemma wd_node n : dyn_wd n -> wdC ρ (node_expr n).
  Proof.
    intros Hd. unfold node_expr. apply wd_mul. apply allwd_app.
    { unfold cg_exprs. destruct (nLS n) as [[L S2]|]; cbn; repeat split; auto. }
    apply allwd_app; [destruct (nH n); cbn; auto|].
    apply allwd_app; [|unfold dyn_wd in Hd; destruct (ndyn n); cbn; auto].
    cbn. repeat split; auto.
  Qed.
  Lemma wd_chain c : chain_wd c -> wdC ρ (chain_expr c).
  Proof.
    intros Hc. unfold chain_expr. apply wd_mul. apply allwd_app; [destruct (cpref c); cbn; auto|].
    apply allwd_app; [destruct (cC c); cbn; auto|].
    eapply allwd_map_Forall; [|exact Hc]. apply wd_node.
  Qed.
  Lemma wd_group g : Forall (Forall chain_wd) g -> wdC ρ (group_expr g).
  Proof.
    intros Hg. unfold group_expr. cbn [wdC wd_headC wd_cpowQ Qden Qnum map chd0]. repeat split.
    change (allwd (map amp_expr g)). eapply allwd_map_Forall; [|exact Hg]. intros a Ha. unfold amp_expr.
    apply wd_add. eapply allwd_map_Forall; [|exact Ha]. apply wd_chain.
  Qed.
  Lemma wd_intensity_expr gs : data_wd gs -> wdC ρ (intensity_expr gs).
  Proof.
    intros H. unfold intensity_expr. apply wd_add. eapply allwd_map_Forall; [|exact H]. apply wd_group.
  Qed.
End Proofs.
