(* AcEq.v — an executable equality test on expression trees modulo what SymPy's automatic
   canonicalisation does to sums and products: associativity/commutativity of Add and Mul,
   flattening, neutral elements, collection of the rational coefficient, and x**n for a small
   positive integer n as n copies of x.  AcEq_proofs.v proves it sound for the complex
   denotation: aceq n a b = true -> denC ρ a = denC ρ b for every environment ρ.
   Hand-written, independent of /repo. *)
From AV Require Export DenC.
Open Scope string_scope.

Definition small_pos_int (q : Q) : option nat :=
  match Qden q, Qnum q with
  | 1%positive, Zpos p => if (Pos.leb p 6) then Some (Pos.to_nat p) else None
  | _, _ => None
  end.

Fixpoint rep_app {A} (n : nat) (l : list A) : list A :=
  match n with O => [] | S n' => (l ++ rep_app n' l)%list end.

(* multiplicative factors *)
Fixpoint factors (e : expr) : list expr :=
  match e with
  | App HMul args =>
      (fix go (l : list expr) : list expr :=
         match l with [] => [] | x :: l' => (factors x ++ go l')%list end) args
  | App HPow [b; Num q] =>
      match small_pos_int q with
      | Some n => rep_app n (factors b)
      | None => [e]
      end
  | _ => [e]
  end.

(* additive terms *)
Fixpoint terms (e : expr) : list expr :=
  match e with
  | App HAdd args =>
      (fix go (l : list expr) : list expr :=
         match l with [] => [] | x :: l' => (terms x ++ go l')%list end) args
  | _ => [e]
  end.

(* rational coefficient and remaining factors *)
Fixpoint split_coeff (l : list expr) : Q * list expr :=
  match l with
  | [] => (1%Q, [])
  | Num q :: l' => let (c, r) := split_coeff l' in (Qmult q c, r)
  | x :: l' => let (c, r) := split_coeff l' in (c, x :: r)
  end.

(* a term k*x with a small integer k (|k| <= 8) as |k| copies of (+-1)*x: SymPy collects like terms *)
Definition small_int (q : Q) : option (bool * nat) :=   (* (is_negative, |k|) *)
  match Qden q, Qnum q with
  | 1%positive, Zpos p => if Pos.leb p 8 then Some (false, Pos.to_nat p) else None
  | 1%positive, Zneg p => if Pos.leb p 8 then Some (true, Pos.to_nat p) else None
  | _, _ => None
  end.
Definition term_expand (t : expr) : list expr :=
  let (c, fs) := split_coeff (factors t) in
  match small_int c with
  | Some (neg, n) =>
      match n with
      | S (S _) => repeat (App HMul (Num (if neg then (-1 # 1) else (1 # 1)) :: fs)) n
      | _ => [t]
      end
  | None => [t]
  end.
Definition neg_term (t : expr) : expr := App HMul [Num (-1 # 1); t].
Definition neg_of (e : expr) : expr :=
  match e with
  | App HAdd _ => App HAdd (map neg_term (terms e))      (* -(a + b) = -a + -b *)
  | _ => neg_term e
  end.

Section MS.
  Variable eqf : expr -> expr -> bool.
  (* remove the first element of l that matches x *)
  Fixpoint remove_match (x : expr) (l : list expr) : option (list expr) :=
    match l with
    | [] => None
    | y :: l' => if eqf x y then Some l'
                 else match remove_match x l' with Some r => Some (y :: r) | None => None end
    end.
  Fixpoint multiset_eq (l1 l2 : list expr) : bool :=
    match l1 with
    | [] => match l2 with [] => true | _ => false end
    | x :: l1' => match remove_match x l2 with Some r => multiset_eq l1' r | None => false end
    end.
  Fixpoint forall2b (l1 l2 : list expr) : bool :=
    match l1, l2 with
    | [], [] => true
    | x :: l1', y :: l2' => eqf x y && forall2b l1' l2'
    | _, _ => false
    end.
End MS.

Definition is_add (e : expr) : bool := match e with App HAdd _ => true | _ => false end.
Definition is_mulish (e : expr) : bool :=
  match e with
  | App HMul _ => true
  | App HPow [_; Num q] => match small_pos_int q with Some _ => true | None => false end
  | _ => false
  end.
Definition is_zero_num (e : expr) : bool :=
  match e with Num q => Qeq_bool q 0 | _ => false end.

(* same head, arguments compared position by position (exponents of Pow syntactically) *)
Definition pos_eq (eqf : expr -> expr -> bool) (a b : expr) : bool :=
  match a, b with
  | Num p, Num q => Qeq_bool p q
  | App h xs, App k ys =>
      match h with
      | HPow =>
          match k with
          | HPow =>
              match xs, ys with
              | [x1; x2], [y1; y2] => expr_eqb x2 y2 && eqf x1 y1
              | _, _ => false
              end
          | _ => false
          end
      | HPiecewise => false
      | HAbs =>
          match k with
          | HAbs =>
              match xs, ys with
              | [x], [y] => eqf x y || eqf x (neg_of y) || eqf (neg_of x) y     (* |z| = |-z| *)
              | _, _ => false
              end
          | _ => false
          end
      | _ => head_eqb h k && forall2b eqf xs ys
      end
  | _, _ => false
  end.

Fixpoint aceq (fuel : nat) (a b : expr) : bool :=
  match fuel with
  | O => false
  | S f =>
      if expr_eqb a b then true
      else if is_add a || is_add b then
        multiset_eq (aceq f) (flat_map term_expand (filter (fun t => negb (is_zero_num t)) (terms a)))
                             (flat_map term_expand (filter (fun t => negb (is_zero_num t)) (terms b)))
      else if is_mulish a || is_mulish b then
        let (ca, fa) := split_coeff (factors a) in
        let (cb, fb) := split_coeff (factors b) in
        Qeq_bool ca cb && multiset_eq (aceq f) fa fb
      else
        pos_eq (aceq f) a b
  end.
