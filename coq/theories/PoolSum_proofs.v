(* PoolSum_proofs.v — proofs about the model in PoolSum.v (no model definitions here). *)
From Coq Require Import String List ZArith Bool Arith Lia Reals Lra.
From AV Require Import PoolSum.
Import ListNotations.
Open Scope string_scope.
Open Scope list_scope.

(* ------------------------------------------------------------------ *)
(* induction principle for the nested type                             *)
(* ------------------------------------------------------------------ *)
Section ExprInd.
  Variable P : expr -> Prop.
  Hypothesis HSym : forall s, P (Sym s).
  Hypothesis HNum : forall n d, P (Num n d).
  Hypothesis HAdd : forall l, Forall P l -> P (Add l).
  Hypothesis HMul : forall l, Forall P l -> P (Mul l).
  Hypothesis HPow : forall b x, P b -> P x -> P (Pow b x).
  Hypothesis HFn : forall f l, Forall P l -> P (Fn f l).
  Hypothesis HPSum : forall b idx, P b -> Forall (fun p => Forall P (snd p)) idx -> P (PSum b idx).
  Fixpoint expr_ind2 (e : expr) : P e :=
    let fix go (l : list expr) : Forall P l :=
      match l with
      | [] => Forall_nil P
      | x :: r => Forall_cons x (expr_ind2 x) (go r)
      end in
    match e with
    | Sym s => HSym s
    | Num n d => HNum n d
    | Add l => HAdd l (go l)
    | Mul l => HMul l (go l)
    | Pow b x => HPow b x (expr_ind2 b) (expr_ind2 x)
    | Fn f l => HFn f l (go l)
    | PSum b idx =>
        HPSum b idx (expr_ind2 b)
          ((fix goi (l : list index) : Forall (fun p => Forall P (snd p)) l :=
              match l with
              | [] => Forall_nil _
              | p :: r => Forall_cons p (go (snd p)) (goi r)
              end) idx)
    end.
End ExprInd.

(* ------------------------------------------------------------------ *)
(* small list facts                                                    *)
(* ------------------------------------------------------------------ *)
Lemma mem_In x l : mem x l = true <-> In x l.
Proof.
  unfold mem. rewrite existsb_exists. split.
  - intros [y [Hy E]]. apply String.eqb_eq in E. now subst.
  - intros H. exists x. split; auto. apply String.eqb_refl.
Qed.

Lemma mem_false x l : mem x l = false <-> ~ In x l.
Proof. rewrite <- mem_In. destruct (mem x l); split; congruence. Qed.

Lemma remove_all_In s ns l : In s (remove_all ns l) <-> In s l /\ ~ In s ns.
Proof.
  unfold remove_all. rewrite filter_In, negb_true_iff, mem_false. tauto.
Qed.

Lemma disjointb_spec a b : disjointb a b = true <-> (forall s, In s a -> ~ In s b).
Proof.
  unfold disjointb. rewrite forallb_forall. split; intros H s Hs.
  - apply mem_false. apply negb_true_iff. auto.
  - apply negb_true_iff, mem_false. auto.
Qed.

Lemma nodupb_NoDup l : nodupb l = true -> NoDup l.
Proof.
  induction l as [|x r IH]; cbn; intros H; constructor.
  - apply andb_true_iff in H as [H _]. now apply mem_false, negb_true_iff.
  - apply andb_true_iff in H as [_ H]. auto.
Qed.

Lemma map_flat_map {X Y Z} (f : Y -> Z) (g : X -> list Y) l :
  map f (flat_map g l) = flat_map (fun x => map f (g x)) l.
Proof. induction l; cbn; auto. now rewrite map_app, IHl. Qed.

Lemma product_length {X} (ps : list (list X)) c : In c (product ps) -> length c = length ps.
Proof.
  revert c. induction ps as [|p r IH]; cbn; intros c H.
  - destruct H as [<-|[]]. reflexivity.
  - apply in_flat_map in H as [a [_ H]]. apply in_map_iff in H as [c' [<- H]].
    cbn. f_equal. auto.
Qed.

Lemma product_elem {X} (ps : list (list X)) c v :
  In c (product ps) -> In v c -> exists p, In p ps /\ In v p.
Proof.
  revert c. induction ps as [|p r IH]; cbn; intros c H Hv.
  - destruct H as [<-|[]]. destruct Hv.
  - apply in_flat_map in H as [a [Ha H]]. apply in_map_iff in H as [c' [<- H]].
    destruct Hv as [<-|Hv].
    + exists p. auto.
    + destruct (IH c' H Hv) as [p' [H1 H2]]. exists p'. auto.
Qed.

Lemma product_map {X Y} (f : X -> Y) ps :
  product (map (map f) ps) = map (map f) (product ps).
Proof.
  induction ps as [|p r IH]; cbn; auto.
  rewrite IH, map_flat_map, flat_map_concat_map, flat_map_concat_map, map_map. f_equal.
  apply map_ext. intros a. now rewrite !map_map.
Qed.

Lemma combine_fst {X Y} (a : list X) (b : list Y) :
  length a = length b -> map fst (combine a b) = a.
Proof.
  revert b. induction a; destruct b; cbn; intros H; try discriminate; auto.
  f_equal. auto.
Qed.

Lemma combine_map_r {X Y Z} (f : Y -> Z) (a : list X) (b : list Y) :
  combine a (map f b) = map (fun kv => (fst kv, f (snd kv))) (combine a b).
Proof. revert b. induction a; destruct b; cbn; auto. now rewrite IHa. Qed.

Lemma in_combine_names {X} (a : list string) (b : list X) k v :
  In (k, v) (combine a b) -> In k a /\ In v b.
Proof. intros H. split; [eapply in_combine_l | eapply in_combine_r]; eauto. Qed.

Lemma filter_filter {X} (f g : X -> bool) l :
  filter f (filter g l) = filter (fun x => g x && f x) l.
Proof.
  induction l as [|x r IH]; cbn; auto.
  destruct (g x); cbn; [destruct (f x)|]; now rewrite IH.
Qed.

Lemma NoDup_map_filter {X} (f : X -> string) (g : X -> bool) l :
  NoDup (map f l) -> NoDup (map f (filter g l)).
Proof.
  induction l as [|x r IH]; cbn; intros H; auto.
  inversion H; subst. destruct (g x); cbn; auto.
  constructor; auto. intros Hin. apply H2.
  apply in_map_iff in Hin as [y [E Hy]]. apply filter_In in Hy as [Hy _].
  rewrite <- E. now apply in_map.
Qed.

(* ------------------------------------------------------------------ *)
(* dictionaries                                                        *)
(* ------------------------------------------------------------------ *)
Lemma dict_set_fresh {B} k (v : B) d :
  ~ In k (map fst d) -> dict_set String.eqb k v d = d ++ [(k, v)].
Proof.
  induction d as [|[k' v'] r IH]; cbn; intros H; auto.
  destruct (String.eqb_spec k k') as [->|Hne]; [tauto|]. f_equal. tauto.
Qed.

Lemma dict_of_nodup_aux {B} (l d : list (string * B)) :
  NoDup (map fst (d ++ l)) ->
  fold_left (fun d p => dict_set String.eqb (fst p) (snd p) d) l d = d ++ l.
Proof.
  revert d. induction l as [|[k v] r IH]; cbn; intros d H.
  - now rewrite app_nil_r.
  - rewrite dict_set_fresh.
    + rewrite IH; rewrite <- app_assoc; cbn; auto.
    + rewrite map_app in H. cbn in H. apply NoDup_remove_2 in H.
      intros Hin. apply H. apply in_or_app. auto.
Qed.

Lemma dict_of_nodup {B} (l : list (string * B)) :
  NoDup (map fst l) -> dict_of String.eqb l = l.
Proof. intros H. unfold dict_of. now rewrite dict_of_nodup_aux. Qed.

Lemma lookup_In {B} (d : list (string * B)) k v :
  lookup String.eqb d k = Some v -> In (k, v) d.
Proof.
  induction d as [|[k' v'] r IH]; cbn; [discriminate|].
  destruct (String.eqb_spec k k') as [->|Hne]; intros H; [left; congruence | right; auto].
Qed.

Lemma lookup_None {B} (d : list (string * B)) k :
  ~ In k (map fst d) -> lookup String.eqb d k = None.
Proof.
  induction d as [|[k' v'] r IH]; cbn; auto. intros H.
  destruct (String.eqb_spec k k') as [->|Hne]; [tauto|]. tauto.
Qed.

Lemma lookup_map {B C} (f : B -> C) (d : list (string * B)) k :
  lookup String.eqb (map (fun kv => (fst kv, f (snd kv))) d) k =
  option_map f (lookup String.eqb d k).
Proof.
  induction d as [|[k' v'] r IH]; cbn; auto. destruct (String.eqb k k'); auto.
Qed.

Lemma lookup_filter_out {B} ns (d : list (string * B)) k :
  In k ns -> lookup String.eqb (filter (fun kv => negb (mem (fst kv) ns)) d) k = None.
Proof.
  intros Hk. induction d as [|[k' v'] r IH]; cbn; auto.
  destruct (mem k' ns) eqn:E; cbn; auto.
  destruct (String.eqb_spec k k') as [->|Hne]; auto.
  apply mem_In in Hk. congruence.
Qed.

Lemma lookup_filter_keep {B} ns (d : list (string * B)) k :
  ~ In k ns -> lookup String.eqb (filter (fun kv => negb (mem (fst kv) ns)) d) k =
               lookup String.eqb d k.
Proof.
  intros Hk. induction d as [|[k' v'] r IH]; cbn; auto.
  destruct (mem k' ns) eqn:E; cbn.
  - destruct (String.eqb_spec k k') as [->|Hne]; auto.
    apply mem_In in E. tauto.
  - now rewrite IH.
Qed.

(* ------------------------------------------------------------------ *)
(* well-formedness, unfolded                                           *)
(* ------------------------------------------------------------------ *)
Definition pool_ok (ns bs : list string) (p : index) : Prop :=
  snd p <> [] /\
  forall v, In v (snd p) ->
    psum_freeb v = true /\ forall s, In s (fv v) -> ~ In s (ns ++ bs).

Lemma wf_PSum b idx :
  wf (PSum b idx) <->
  wf b /\ NoDup (names idx) /\ forall p, In p idx -> pool_ok (names idx) (binders b) p.
Proof.
  unfold wf, pool_ok. cbn [wfb]. rewrite !andb_true_iff, forallb_forall. split.
  - intros [[H1 H2] H3]. repeat split; auto using nodupb_NoDup.
    + specialize (H3 p H). apply andb_true_iff in H3 as [H3 _].
      destruct (snd p); cbn in *; congruence.
    + specialize (H3 p H). apply andb_true_iff in H3 as [_ H3].
      rewrite forallb_forall in H3. specialize (H3 v H0). now apply andb_true_iff in H3.
    + specialize (H3 p H). apply andb_true_iff in H3 as [_ H3].
      rewrite forallb_forall in H3. specialize (H3 v H0). apply andb_true_iff in H3 as [_ H3].
      rewrite disjointb_spec in H3. auto.
  - intros [H1 [H2 H3]]. repeat split; auto.
    + clear H3. induction H2; cbn; auto. apply andb_true_iff. split; auto.
      now apply negb_true_iff, mem_false.
    + intros p Hp. destruct (H3 p Hp) as [Ha Hb]. apply andb_true_iff. split.
      * destruct (snd p); cbn; congruence.
      * apply forallb_forall. intros v Hv. destruct (Hb v Hv) as [Hc Hd].
        apply andb_true_iff. split; auto. now apply disjointb_spec.
Qed.

Lemma wf_list (l : list expr) : forallb wfb l = true <-> forall x, In x l -> wf x.
Proof. apply forallb_forall. Qed.

Lemma psum_free_binders e : psum_freeb e = true -> binders e = [].
Proof.
  induction e using expr_ind2; cbn; intros Hp; auto; try discriminate.
  - rewrite forallb_forall in Hp. induction H; cbn; auto.
    rewrite H, IHForall; auto; intros; apply Hp; cbn; auto.
  - rewrite forallb_forall in Hp. induction H; cbn; auto.
    rewrite H, IHForall; auto; intros; apply Hp; cbn; auto.
  - apply andb_true_iff in Hp as [H1 H2]. now rewrite IHe1, IHe2.
  - rewrite forallb_forall in Hp. induction H; cbn; auto.
    rewrite H, IHForall; auto; intros; apply Hp; cbn; auto.
Qed.

Lemma psum_free_wf e : psum_freeb e = true -> wf e.
Proof.
  unfold wf. induction e using expr_ind2; cbn; intros Hp; auto; try discriminate.
  - rewrite forallb_forall in *. rewrite Forall_forall in H. auto.
  - rewrite forallb_forall in *. rewrite Forall_forall in H. auto.
  - apply andb_true_iff in Hp as [H1 H2]. now rewrite IHe1, IHe2.
  - rewrite forallb_forall in *. rewrite Forall_forall in H. auto.
Qed.

(* ------------------------------------------------------------------ *)
(* environments                                                        *)
(* ------------------------------------------------------------------ *)
Section Sem.
  Variable A : alg.
  Notation env := (string -> V A).

  Lemma bind_cons (r : env) k d t : bind r ((k, d) :: t) = bind (upd r k d) t.
  Proof. reflexivity. Qed.

  Lemma bind_agree_on (P : string -> Prop) l : forall (r r' : env),
      (forall s, P s -> r s = r' s) -> forall s, P s -> bind r l s = bind r' l s.
  Proof.
    induction l as [|[k d] t IH]; intros r r' H s Hs; auto.
    rewrite !bind_cons. apply IH; auto. intros s' Hs'. unfold upd. destruct (String.eqb s' k); auto.
  Qed.

  Lemma bind_notin l : forall (r : env) s, ~ In s (map fst l) -> bind r l s = r s.
  Proof.
    induction l as [|[k d] t IH]; intros r s H; auto.
    rewrite bind_cons. cbn in H. rewrite IH by tauto. unfold upd.
    destruct (String.eqb_spec s k); auto. subst. tauto.
  Qed.

  Lemma bind_in l : forall (r r' : env) s, In s (map fst l) -> bind r l s = bind r' l s.
  Proof.
    induction l as [|[k d] t IH]; intros r r' s H; [cbn in H; tauto|].
    rewrite !bind_cons. cbn in H.
    destruct (in_dec string_dec s (map fst t)) as [Hin|Hn].
    - now apply IH.
    - rewrite !bind_notin by auto. unfold upd.
      destruct (String.eqb_spec s k); auto. destruct H; congruence.
  Qed.

  Lemma bind_upd_comm l : forall (r : env) k d s,
      ~ In k (map fst l) -> bind (upd r k d) l s = upd (bind r l) k d s.
  Proof.
    intros r k d s Hk. destruct (in_dec string_dec s (map fst l)) as [Hin|Hn].
    - unfold upd at 2. destruct (String.eqb_spec s k) as [->|_]; [tauto|]. now apply bind_in.
    - rewrite bind_notin by auto. unfold upd. destruct (String.eqb s k); auto.
      now rewrite bind_notin.
  Qed.

  (* first-match environment from an association list of values *)
  Definition senvV (r : env) (l : list (string * V A)) : env :=
    fun s => match lookup String.eqb l s with Some d => d | None => r s end.

  Lemma bind_senvV l : forall (r : env) s, NoDup (map fst l) -> bind r l s = senvV r l s.
  Proof.
    induction l as [|[k d] t IH]; intros r s H; auto.
    cbn in H. inversion H; subst. rewrite bind_cons.
    rewrite IH by auto. unfold senvV. cbn [lookup].
    destruct (String.eqb_spec s k) as [->|Hne].
    - rewrite lookup_None by auto. unfold upd. now rewrite String.eqb_refl.
    - destruct (lookup String.eqb t s); auto. unfold upd.
      destruct (String.eqb_spec s k); congruence.
  Qed.

  (* first-match environment from a substitution (values read in r) *)
  Definition senv (r : env) (sg : list (string * expr)) : env :=
    fun s => match lookup String.eqb sg s with Some v => den r v | None => r s end.

  Lemma senv_senvV r sg s :
    senv r sg s = senvV r (map (fun kv => (fst kv, den r (snd kv))) sg) s.
  Proof. unfold senv, senvV. rewrite lookup_map. destruct (lookup String.eqb sg s); auto. Qed.

  (* -------------------------------------------------------------- *)
  (* coincidence: the value depends on the free variables only       *)
  (* -------------------------------------------------------------- *)
  Lemma den_pools_ext (r r' : env) (idx : list index) :
    (forall p v, In p idx -> In v (snd p) -> den r v = den r' v) ->
    map (fun p => map (den r) (snd p)) idx = map (fun p => map (den r') (snd p)) idx.
  Proof.
    intros H. apply map_ext_in. intros p Hp. apply map_ext_in. intros v Hv. eauto.
  Qed.

  Lemma den_ext e : forall (r r' : env),
      (forall s, In s (fv e) -> r s = r' s) -> den r e = den r' e.
  Proof.
    induction e using expr_ind2; intros r r' Hs; cbn [den fv] in *; auto.
    - apply Hs. cbn. auto.
    - f_equal. apply map_ext_in. intros x Hx. rewrite Forall_forall in H. apply H; auto.
      intros s Hi. apply Hs. apply in_flat_map. eauto.
    - f_equal. apply map_ext_in. intros x Hx. rewrite Forall_forall in H. apply H; auto.
      intros s Hi. apply Hs. apply in_flat_map. eauto.
    - f_equal; [apply IHe1|apply IHe2]; intros; apply Hs; apply in_or_app; auto.
    - f_equal. apply map_ext_in. intros x Hx. rewrite Forall_forall in H. apply H; auto.
      intros s Hi. apply Hs. apply in_flat_map. eauto.
    - f_equal.
      rewrite (den_pools_ext r r').
      + apply map_ext_in. intros dc Hdc. apply IHe. intros s Hi.
        apply product_length in Hdc. rewrite map_length in Hdc.
        destruct (in_dec string_dec s (names idx)) as [Hin|Hn].
        * apply bind_in. rewrite combine_fst; auto. unfold names. now rewrite map_length.
        * rewrite !bind_notin; try (rewrite combine_fst; auto; unfold names; now rewrite map_length).
          apply Hs. apply in_or_app. left. apply remove_all_In. auto.
      + intros p v Hp Hv. rewrite Forall_forall in H. specialize (H p Hp).
        rewrite Forall_forall in H. apply H; auto. intros s Hi. apply Hs.
        apply in_or_app. right. apply in_flat_map. exists p. split; auto.
        apply in_flat_map. eauto.
  Qed.

  Lemma den_ext_all e (r r' : env) : (forall s, r s = r' s) -> den r e = den r' e.
  Proof. intros H. apply den_ext. auto. Qed.

End Sem.
Arguments senv {A} r sg.
Arguments senvV {A} r l.

(* ------------------------------------------------------------------ *)
(* xreplace with symbol keys = simultaneous substitution               *)
(* ------------------------------------------------------------------ *)
Definition srule (sg : list (string * expr)) : rule :=
  map (fun kv => (Sym (fst kv), snd kv)) sg.

Lemma lookup_srule_Sym sg s : lookup expr_eqb (srule sg) (Sym s) = lookup String.eqb sg s.
Proof. induction sg as [|[k v] r IH]; cbn; auto. destruct (String.eqb s k); auto. Qed.

Lemma lookup_srule_other sg e : (forall s, e <> Sym s) -> lookup expr_eqb (srule sg) e = None.
Proof.
  intros H. induction sg as [|[k v] r IH]; cbn; auto.
  destruct e; cbn; auto. exfalso. eapply H; eauto.
Qed.

Lemma filter_srule ns sg :
  filter (key_not_bound ns) (srule sg) = srule (filter (fun kv => negb (mem (fst kv) ns)) sg).
Proof.
  induction sg as [|[k v] r IH]; auto.
  change (srule ((k, v) :: r)) with ((Sym k, v) :: srule r). cbn [filter].
  unfold key_not_bound at 1. cbn [fst].
  destruct (mem k ns); cbn [negb]; rewrite IH; reflexivity.
Qed.

Lemma xreplace_PSum r b idx :
  xreplace r (PSum b idx) =
  match lookup expr_eqb r (PSum b idx) with
  | Some v => v
  | None =>
      let r' := filter (key_not_bound (names idx)) r in
      match r' with
      | [] => PSum b idx
      | _ => PSum (xreplace r' b) (map (fun p => (fst p, map (xreplace r') (snd p))) idx)
      end
  end.
Proof. reflexivity. Qed.

Lemma xreplace_srule_PSum sg b idx :
  xreplace (srule sg) (PSum b idx) =
  match filter (fun kv => negb (mem (fst kv) (names idx))) sg with
  | [] => PSum b idx
  | sg' => PSum (xreplace (srule sg') b) (map (fun p => (fst p, map (xreplace (srule sg')) (snd p))) idx)
  end.
Proof.
  rewrite xreplace_PSum, lookup_srule_other by discriminate. cbv zeta. rewrite filter_srule.
  destruct (filter _ sg); reflexivity.
Qed.

Lemma filter_nil_all {X} (f : X -> bool) l : filter f l = [] -> forall x, In x l -> f x = false.
Proof.
  intros E x Hx. destruct (f x) eqn:F; auto.
  assert (In x (filter f l)) by (apply filter_In; auto). rewrite E in H. destruct H.
Qed.

Lemma names_map_pools (f : expr -> expr) idx :
  names (map (fun p => (fst p, map f (snd p))) idx) = names idx.
Proof. unfold names. rewrite map_map. reflexivity. Qed.

Section Subst.
  Variable A : alg.
  Notation env := (string -> V A).

  Lemma xreplace_srule_den e : forall (r : env) sg,
      wf e ->
      (forall k v, In (k, v) sg -> forall s, In s (fv v) -> ~ In s (binders e)) ->
      den r (xreplace (srule sg) e) = den (senv r sg) e.
  Proof.
    induction e using expr_ind2; intros r sg Hwf Hnc.
    - cbn [xreplace]. rewrite lookup_srule_Sym. unfold senv. cbn [den].
      destruct (lookup String.eqb sg s); reflexivity.
    - cbn [xreplace]. rewrite lookup_srule_other by discriminate. reflexivity.
    - cbn [xreplace]. rewrite lookup_srule_other by discriminate. cbn [den]. f_equal.
      rewrite map_map. apply map_ext_in. intros x Hx. rewrite Forall_forall in H. apply H; auto.
      + unfold wf in Hwf. cbn [wfb] in Hwf. rewrite forallb_forall in Hwf. now apply Hwf.
      + intros k v Hkv s Hs Hb. eapply Hnc; eauto. cbn [binders]. apply in_flat_map. eauto.
    - cbn [xreplace]. rewrite lookup_srule_other by discriminate. cbn [den]. f_equal.
      rewrite map_map. apply map_ext_in. intros x Hx. rewrite Forall_forall in H. apply H; auto.
      + unfold wf in Hwf. cbn [wfb] in Hwf. rewrite forallb_forall in Hwf. now apply Hwf.
      + intros k v Hkv s Hs Hb. eapply Hnc; eauto. cbn [binders]. apply in_flat_map. eauto.
    - cbn [xreplace]. rewrite lookup_srule_other by discriminate. cbn [den].
      unfold wf in Hwf. cbn [wfb] in Hwf. apply andb_true_iff in Hwf as [W1 W2].
      f_equal; [apply IHe1|apply IHe2]; auto;
        intros k v Hkv s Hs Hb; eapply Hnc; eauto; cbn [binders]; apply in_or_app; auto.
    - cbn [xreplace]. rewrite lookup_srule_other by discriminate. cbn [den]. f_equal.
      rewrite map_map. apply map_ext_in. intros x Hx. rewrite Forall_forall in H. apply H; auto.
      + unfold wf in Hwf. cbn [wfb] in Hwf. rewrite forallb_forall in Hwf. now apply Hwf.
      + intros k v Hkv s Hs Hb. eapply Hnc; eauto. cbn [binders]. apply in_flat_map. eauto.
    - rename H into IHv. apply wf_PSum in Hwf as [Wb [Nd Hp]].
      rewrite xreplace_srule_PSum.
      destruct (filter (fun kv => negb (mem (fst kv) (names idx))) sg) as [|kv0 t0] eqn:E.
      + (* every key is one of the indices: node unchanged *)
        apply den_ext. intros s Hs. unfold senv.
        destruct (lookup String.eqb sg s) as [v|] eqn:L; auto. exfalso.
        apply lookup_In in L. pose proof (filter_nil_all _ _ E _ L) as F. cbn in F.
        apply negb_false_iff, mem_In in F.
        cbn [fv] in Hs. apply in_app_or in Hs as [Hs|Hs].
        * apply remove_all_In in Hs. tauto.
        * apply in_flat_map in Hs as [p [Hp1 Hp2]]. apply in_flat_map in Hp2 as [v' [Hv1 Hv2]].
          destruct (Hp p Hp1) as [_ Hq]. destruct (Hq v' Hv1) as [_ Hq2].
          apply (Hq2 s Hv2). apply in_or_app. auto.
      + rewrite <- E. set (sg' := filter (fun kv => negb (mem (fst kv) (names idx))) sg).
        assert (Hsub : forall k v, In (k, v) sg' -> In (k, v) sg).
        { intros k v Hin. apply filter_In in Hin. tauto. }
        cbn [den]. rewrite names_map_pools. f_equal.
        assert (Hpools :
          map (fun p => map (den r) (snd p)) (map (fun p => (fst p, map (xreplace (srule sg')) (snd p))) idx)
          = map (fun p => map (den (senv r sg)) (snd p)) idx).
        { rewrite map_map. apply map_ext_in. intros p Hpi. cbn [snd]. rewrite map_map.
          apply map_ext_in. intros v Hv.
          rewrite Forall_forall in IHv. specialize (IHv p Hpi). rewrite Forall_forall in IHv.
          destruct (Hp p Hpi) as [_ Hq]. destruct (Hq v Hv) as [Pf Hq2].
          rewrite IHv; auto.
          - apply den_ext. intros s Hs. unfold senv. unfold sg'.
            rewrite lookup_filter_keep; auto. intros Hin. apply (Hq2 s Hs). apply in_or_app. auto.
          - now apply psum_free_wf.
          - intros k v1 Hkv s Hs Hb. rewrite psum_free_binders in Hb by auto. destruct Hb. }
        rewrite Hpools. apply map_ext_in. intros dc Hdc.
        apply product_length in Hdc. rewrite map_length in Hdc.
        assert (Hkeys : map fst (combine (names idx) dc) = names idx).
        { apply combine_fst. unfold names. now rewrite map_length. }
        rewrite IHe; auto.
        * apply den_ext. intros s _. unfold senv at 1.
          destruct (in_dec string_dec s (names idx)) as [Hin|Hn].
          -- unfold sg'. rewrite lookup_filter_out by auto. apply bind_in. now rewrite Hkeys.
          -- unfold sg'. rewrite lookup_filter_keep by auto.
             rewrite (bind_notin A _ (senv r sg)) by now rewrite Hkeys.
             unfold senv. destruct (lookup String.eqb sg s) as [v|] eqn:L.
             ++ apply den_ext. intros s' Hs'. apply bind_notin. rewrite Hkeys.
                apply lookup_In in L. intros Hin. eapply Hnc; eauto. cbn [binders].
                apply in_or_app. auto.
             ++ apply bind_notin. now rewrite Hkeys.
        * intros k v Hkv s Hs Hb. eapply Hnc; eauto. cbn [binders].
          apply in_or_app. right. apply in_or_app. auto.
  Qed.

  (* ---------------- subs1 is the one-rule xreplace ---------------- *)
  Lemma subs1_xreplace x v e : subs1 x v e = xreplace (srule [(x, v)]) e.
  Proof.
    induction e using expr_ind2.
    - cbn. destruct (String.eqb s x); reflexivity.
    - reflexivity.
    - cbn. f_equal. apply map_ext_in. intros y Hy. rewrite Forall_forall in H. auto.
    - cbn. f_equal. apply map_ext_in. intros y Hy. rewrite Forall_forall in H. auto.
    - cbn. now rewrite IHe1, IHe2.
    - cbn. f_equal. apply map_ext_in. intros y Hy. rewrite Forall_forall in H. auto.
    - rewrite xreplace_srule_PSum. cbn [subs1 filter fst].
      destruct (mem x (names idx)); cbn [negb]; auto.
      f_equal; auto. apply map_ext_in. intros p Hp. f_equal. apply map_ext_in. intros y Hy.
      rewrite Forall_forall in H. specialize (H p Hp). rewrite Forall_forall in H. auto.
  Qed.

  Lemma subs1_den e (r : env) x v :
    wf e -> (forall s, In s (fv v) -> ~ In s (binders e)) ->
    den r (subs1 x v e) = den (upd r x (den r v)) e.
  Proof.
    intros Hwf Hnc. rewrite subs1_xreplace, xreplace_srule_den; auto.
    - apply den_ext. intros s _. unfold senv, upd. cbn [lookup]. destruct (String.eqb s x); auto.
    - intros k v' [E|[]] s Hs. inversion E; subst. auto.
  Qed.
End Subst.

(* ------------------------------------------------------------------ *)
(* subs1 preserves binders / psum-freeness / well-formedness           *)
(* ------------------------------------------------------------------ *)
Lemma flat_map_map_ext {X Y} (f g : X -> list Y) l :
  (forall x, In x l -> f x = g x) -> flat_map f l = flat_map g l.
Proof. intros H. induction l; cbn; auto. rewrite H, IHl; cbn; auto. intros; apply H; cbn; auto. Qed.

Lemma psum_free_subs1 x v e :
  psum_freeb v = true -> psum_freeb e = true -> psum_freeb (subs1 x v e) = true.
Proof.
  intros Hv. induction e using expr_ind2; cbn; intros He; auto; try discriminate.
  - destruct (String.eqb s x); auto.
  - rewrite forallb_forall in *. intros y Hy. apply in_map_iff in Hy as [z [<- Hz]].
    rewrite Forall_forall in H. auto.
  - rewrite forallb_forall in *. intros y Hy. apply in_map_iff in Hy as [z [<- Hz]].
    rewrite Forall_forall in H. auto.
  - apply andb_true_iff in He as [H1 H2]. now rewrite IHe1, IHe2.
  - rewrite forallb_forall in *. intros y Hy. apply in_map_iff in Hy as [z [<- Hz]].
    rewrite Forall_forall in H. auto.
Qed.

Lemma binders_subs1 x v e : psum_freeb v = true -> binders (subs1 x v e) = binders e.
Proof.
  intros Hv. induction e using expr_ind2; cbn [subs1 binders]; auto.
  - destruct (String.eqb s x); auto. now apply psum_free_binders.
  - rewrite flat_map_concat_map, map_map, <- flat_map_concat_map.
    apply flat_map_map_ext. rewrite Forall_forall in H. auto.
  - rewrite flat_map_concat_map, map_map, <- flat_map_concat_map.
    apply flat_map_map_ext. rewrite Forall_forall in H. auto.
  - now rewrite IHe1, IHe2.
  - rewrite flat_map_concat_map, map_map, <- flat_map_concat_map.
    apply flat_map_map_ext. rewrite Forall_forall in H. auto.
  - destruct (mem x (names idx)); auto. cbn [binders]. rewrite names_map_pools, IHe.
    f_equal. f_equal.
    rewrite flat_map_concat_map, map_map, <- flat_map_concat_map.
    apply flat_map_map_ext. intros p Hp. cbn [snd].
    rewrite flat_map_concat_map, map_map, <- flat_map_concat_map.
    apply flat_map_map_ext. rewrite Forall_forall in H. specialize (H p Hp).
    rewrite Forall_forall in H. auto.
Qed.

Lemma fv_subs1 x v e s : In s (fv (subs1 x v e)) -> In s (fv e) \/ In s (fv v).
Proof.
  induction e using expr_ind2; cbn [subs1 fv]; auto.
  - destruct (String.eqb s0 x); auto.
  - intros Hs. apply in_flat_map in Hs as [y [Hy Hs]]. apply in_map_iff in Hy as [z [<- Hz]].
    rewrite Forall_forall in H. destruct (H z Hz Hs); auto. left. apply in_flat_map. eauto.
  - intros Hs. apply in_flat_map in Hs as [y [Hy Hs]]. apply in_map_iff in Hy as [z [<- Hz]].
    rewrite Forall_forall in H. destruct (H z Hz Hs); auto. left. apply in_flat_map. eauto.
  - intros Hs. apply in_app_or in Hs as [Hs|Hs]; [destruct (IHe1 Hs)|destruct (IHe2 Hs)]; auto;
      left; apply in_or_app; auto.
  - intros Hs. apply in_flat_map in Hs as [y [Hy Hs]]. apply in_map_iff in Hy as [z [<- Hz]].
    rewrite Forall_forall in H. destruct (H z Hz Hs); auto. left. apply in_flat_map. eauto.
  - destruct (mem x (names idx)); auto. cbn [fv]. rewrite names_map_pools. intros Hs.
    apply in_app_or in Hs as [Hs|Hs].
    + apply remove_all_In in Hs as [Hs Hn]. destruct (IHe Hs); auto.
      left. apply in_or_app. left. apply remove_all_In. auto.
    + apply in_flat_map in Hs as [p' [Hp' Hs]]. apply in_map_iff in Hp' as [p [<- Hp]].
      cbn [snd] in Hs. apply in_flat_map in Hs as [y [Hy Hs]].
      apply in_map_iff in Hy as [z [<- Hz]].
      rewrite Forall_forall in H. specialize (H p Hp). rewrite Forall_forall in H.
      destruct (H z Hz Hs); auto. left. apply in_or_app. right.
      apply in_flat_map. exists p. split; auto. apply in_flat_map. eauto.
Qed.

Lemma wf_subs1 x v e :
  psum_freeb v = true -> (forall s, In s (fv v) -> ~ In s (binders e)) ->
  wf e -> wf (subs1 x v e).
Proof.
  intros Hv. induction e using expr_ind2; intros Hnc Hwf; cbn [subs1]; auto.
  - destruct (String.eqb s x); auto. now apply psum_free_wf.
  - unfold wf in *. cbn [wfb] in *. rewrite forallb_forall in *. intros y Hy.
    apply in_map_iff in Hy as [z [<- Hz]]. rewrite Forall_forall in H. apply H; auto.
    intros s Hs Hb. eapply Hnc; eauto. cbn. apply in_flat_map. eauto.
  - unfold wf in *. cbn [wfb] in *. rewrite forallb_forall in *. intros y Hy.
    apply in_map_iff in Hy as [z [<- Hz]]. rewrite Forall_forall in H. apply H; auto.
    intros s Hs Hb. eapply Hnc; eauto. cbn. apply in_flat_map. eauto.
  - unfold wf in *. cbn [wfb] in *. apply andb_true_iff in Hwf as [W1 W2].
    apply andb_true_iff. split; [apply IHe1|apply IHe2]; auto;
      intros s Hs Hb; eapply Hnc; eauto; cbn; apply in_or_app; auto.
  - unfold wf in *. cbn [wfb] in *. rewrite forallb_forall in *. intros y Hy.
    apply in_map_iff in Hy as [z [<- Hz]]. rewrite Forall_forall in H. apply H; auto.
    intros s Hs Hb. eapply Hnc; eauto. cbn. apply in_flat_map. eauto.
  - destruct (mem x (names idx)); auto.
    apply wf_PSum in Hwf as [Wb [Nd Hp]]. apply wf_PSum. rewrite names_map_pools.
    split; [|split; auto].
    + apply IHe; auto. intros s Hs Hb. eapply Hnc; eauto. cbn. apply in_or_app. right.
      apply in_or_app. auto.
    + intros p' Hp'. apply in_map_iff in Hp' as [p [<- Hpi]]. destruct (Hp p Hpi) as [Hne Hq].
      split; cbn [snd].
      * destruct (snd p); cbn; congruence.
      * intros y Hy. apply in_map_iff in Hy as [z [<- Hz]]. destruct (Hq z Hz) as [Pf Hd].
        split; [now apply psum_free_subs1|].
        intros s Hs. rewrite binders_subs1 by auto.
        destruct (fv_subs1 _ _ _ _ Hs) as [H1|H1]; auto.
        intros Hin. apply (Hnc s H1). cbn. apply in_app_or in Hin as [Hin|Hin].
        -- apply in_or_app. auto.
        -- apply in_or_app. right. apply in_or_app. auto.
Qed.

(* ---------------- sequential substitution ---------------- *)
Definition sub_ok (sg : list (string * expr)) (e : expr) : Prop :=
  forall k v, In (k, v) sg ->
    psum_freeb v = true /\
    forall s, In s (fv v) -> ~ In s (binders e) /\ ~ In s (map fst sg).

Lemma subs_seq_cons x v sg e : subs_seq ((x, v) :: sg) e = subs_seq sg (subs1 x v e).
Proof. reflexivity. Qed.

Lemma sub_ok_tail x v sg e : sub_ok ((x, v) :: sg) e -> sub_ok sg (subs1 x v e).
Proof.
  intros H k w Hin. destruct (H x v (or_introl eq_refl)) as [Pv _].
  destruct (H k w (or_intror Hin)) as [Pw Hw]. split; auto.
  intros s Hs. rewrite binders_subs1 by auto. destruct (Hw s Hs) as [H1 H2].
  split; auto. intros Hi. apply H2. cbn. auto.
Qed.

Lemma wf_subs_seq sg : forall e, sub_ok sg e -> wf e -> wf (subs_seq sg e).
Proof.
  induction sg as [|[x v] t IH]; intros e Hok Hwf; auto.
  rewrite subs_seq_cons. apply IH.
  - now apply sub_ok_tail.
  - destruct (Hok x v (or_introl eq_refl)) as [Pv Hv]. apply wf_subs1; auto.
    intros s Hs. now apply Hv.
Qed.

Lemma binders_subs_seq sg : forall e, sub_ok sg e -> binders (subs_seq sg e) = binders e.
Proof.
  induction sg as [|[x v] t IH]; intros e Hok; auto.
  rewrite subs_seq_cons, IH by now apply sub_ok_tail.
  destruct (Hok x v (or_introl eq_refl)) as [Pv _]. now apply binders_subs1.
Qed.

Section Eval.
  Variable A : alg.
  Notation env := (string -> V A).

  Lemma senv_cons (r : env) x v t s :
    senv r ((x, v) :: t) s = if String.eqb s x then den r v else senv r t s.
  Proof. unfold senv. cbn [lookup]. destruct (String.eqb s x); reflexivity. Qed.

  Lemma subs_seq_den sg : forall e (r : env),
      sub_ok sg e -> wf e -> den r (subs_seq sg e) = den (senv r sg) e.
  Proof.
    induction sg as [|[x v] t IH]; intros e r Hok Hwf.
    - apply den_ext. intros s _. reflexivity.
    - rewrite subs_seq_cons.
      destruct (Hok x v (or_introl eq_refl)) as [Pv Hv].
      rewrite IH; [|now apply sub_ok_tail|apply wf_subs1; auto; intros s Hs; now apply Hv].
      rewrite subs1_den; auto; [|intros s Hs; now apply Hv].
      apply den_ext. intros s _. rewrite senv_cons. unfold upd.
      destruct (String.eqb s x); auto.
      apply den_ext. intros s' Hs'. unfold senv.
      rewrite lookup_None; auto. intros Hin. destruct (Hv s' Hs') as [_ H2]. apply H2. cbn. auto.
  Qed.

  Lemma den_PSum (r : env) b idx :
    den r (PSum b idx) =
    vsum (map (fun c => den (bind r (combine (names idx) (map (den r) c))) b) (product (pools idx))).
  Proof.
    cbn [den]. f_equal. unfold pools.
    replace (map (fun p => map (den r) (snd p)) idx) with (map (map (den r)) (map snd idx))
      by now rewrite map_map.
    rewrite product_map, map_map. reflexivity.
  Qed.

  Lemma combi_sub_ok b idx c :
    wf (PSum b idx) -> In c (product (pools idx)) -> sub_ok (combine (names idx) c) b.
  Proof.
    intros Hwf Hc k v Hkv. apply wf_PSum in Hwf as [Wb [Nd Hp]].
    apply in_combine_names in Hkv as [Hk Hv].
    destruct (product_elem _ _ _ Hc Hv) as [pl [Hpl Hvp]].
    unfold pools in Hpl. apply in_map_iff in Hpl as [p [<- Hpi]].
    destruct (Hp p Hpi) as [_ Hq]. destruct (Hq v Hvp) as [Pf Hd]. split; auto.
    intros s Hs. specialize (Hd s Hs). split.
    - intros Hb. apply Hd. apply in_or_app. auto.
    - intros Hin. apply Hd. apply in_or_app. left.
      apply in_map_iff in Hin as [[k' v'] [<- Hin]]. apply in_combine_l in Hin. auto.
  Qed.

  (* evaluate: the Add of the sequentially substituted summands IS the sum *)
  Theorem evaluate_den e (r : env) : wf e -> den r (evaluate e) = den r e.
  Proof.
    destruct e; auto. intros Hwf. pose proof Hwf as Hwf0.
    apply wf_PSum in Hwf as [Wb [Nd Hp]].
    cbn [evaluate]. rewrite dict_of_nodup by auto. rewrite den_PSum.
    cbn [den]. f_equal. rewrite map_map. apply map_ext_in. intros c Hc.
    pose proof (product_length _ _ Hc) as Hlen. unfold pools in Hlen. rewrite map_length in Hlen.
    rewrite subs_seq_den; auto; [|eapply combi_sub_ok; eauto].
    apply den_ext. intros s _. rewrite senv_senvV, <- combine_map_r.
    symmetry. apply bind_senvV. rewrite combine_fst; auto.
    unfold names. now rewrite !map_length.
  Qed.

  Lemma wf_evaluate e : wf e -> wf (evaluate e).
  Proof.
    destruct e; auto. intros Hwf. pose proof Hwf as Hwf0.
    apply wf_PSum in Hwf as [Wb [Nd Hp]].
    cbn [evaluate]. rewrite dict_of_nodup by auto.
    unfold wf. cbn [wfb]. apply forallb_forall. intros y Hy.
    apply in_map_iff in Hy as [c [<- Hc]]. apply wf_subs_seq; auto.
    eapply combi_sub_ok; eauto.
  Qed.

  Lemma binders_evaluate b idx s :
    wf (PSum b idx) -> In s (binders (evaluate (PSum b idx))) -> In s (binders b).
  Proof.
    intros Hwf. pose proof Hwf as Hwf0. apply wf_PSum in Hwf as [Wb [Nd Hp]].
    cbn [evaluate]. rewrite dict_of_nodup by auto. cbn [binders]. intros Hs.
    apply in_flat_map in Hs as [y [Hy Hs]]. apply in_map_iff in Hy as [c [<- Hc]].
    rewrite binders_subs_seq in Hs; auto. eapply combi_sub_ok; eauto.
  Qed.

  (* ---------------- doit ---------------- *)
  Lemma doitF_S_PSum n b idx : doitF (S n) (PSum b idx) = doitF n (evaluate (PSum b idx)).
  Proof. reflexivity. Qed.

  Theorem doitF_den n : forall e (r : env), wf e -> den r (doitF n e) = den r e.
  Proof.
    induction n as [|n IHn]; [reflexivity|].
    induction e using expr_ind2; intros r Hwf; try reflexivity.
    - change (doitF (S n) (Add l)) with (Add (map (doitF (S n)) l)). cbn [den]. f_equal.
      rewrite map_map. apply map_ext_in. intros y Hy. rewrite Forall_forall in H. apply H; auto.
      unfold wf in Hwf. cbn [wfb] in Hwf. rewrite forallb_forall in Hwf. now apply Hwf.
    - change (doitF (S n) (Mul l)) with (Mul (map (doitF (S n)) l)). cbn [den]. f_equal.
      rewrite map_map. apply map_ext_in. intros y Hy. rewrite Forall_forall in H. apply H; auto.
      unfold wf in Hwf. cbn [wfb] in Hwf. rewrite forallb_forall in Hwf. now apply Hwf.
    - change (doitF (S n) (Pow e1 e2)) with (Pow (doitF (S n) e1) (doitF (S n) e2)). cbn [den].
      unfold wf in Hwf. cbn [wfb] in Hwf. apply andb_true_iff in Hwf as [W1 W2].
      now rewrite IHe1, IHe2.
    - change (doitF (S n) (Fn f l)) with (Fn f (map (doitF (S n)) l)). cbn [den]. f_equal.
      rewrite map_map. apply map_ext_in. intros y Hy. rewrite Forall_forall in H. apply H; auto.
      unfold wf in Hwf. cbn [wfb] in Hwf. rewrite forallb_forall in Hwf. now apply Hwf.
    - rewrite doitF_S_PSum, IHn by now apply wf_evaluate. now apply evaluate_den.
  Qed.
End Eval.

(* ------------------------------------------------------------------ *)
(* doit leaves no PoolSum                                              *)
(* ------------------------------------------------------------------ *)
Lemma lmax_cons a l : lmax (a :: l) = Nat.max a (lmax l).
Proof. reflexivity. Qed.

Lemma lmax_ge l x : In x l -> x <= lmax l.
Proof.
  induction l; intros H; [destruct H|]. rewrite lmax_cons.
  destruct H as [->|H]; [lia|]. specialize (IHl H). lia.
Qed.

Lemma lmax_le l d : (forall x, In x l -> x <= d) -> lmax l <= d.
Proof.
  induction l; intros H; [cbn; lia|]. rewrite lmax_cons. assert (a <= d) by (apply H; cbn; auto).
  assert (lmax l <= d) by (apply IHl; intros; apply H; cbn; auto). lia.
Qed.

Lemma psum_free_depth e : psum_freeb e = true -> depth e = 0.
Proof.
  induction e using expr_ind2; cbn [depth psum_freeb]; intros Hp; auto; try discriminate.
  - rewrite forallb_forall in Hp. rewrite Forall_forall in H.
    assert (lmax (map depth l) <= 0); [|lia]. apply lmax_le. intros x Hx.
    apply in_map_iff in Hx as [y [<- Hy]]. rewrite H; auto.
  - rewrite forallb_forall in Hp. rewrite Forall_forall in H.
    assert (lmax (map depth l) <= 0); [|lia]. apply lmax_le. intros x Hx.
    apply in_map_iff in Hx as [y [<- Hy]]. rewrite H; auto.
  - apply andb_true_iff in Hp as [H1 H2]. rewrite IHe1, IHe2; auto.
  - rewrite forallb_forall in Hp. rewrite Forall_forall in H.
    assert (lmax (map depth l) <= 0); [|lia]. apply lmax_le. intros x Hx.
    apply in_map_iff in Hx as [y [<- Hy]]. rewrite H; auto.
Qed.

Lemma depth_subs1 x v e : psum_freeb v = true -> depth (subs1 x v e) = depth e.
Proof.
  intros Hv. induction e using expr_ind2; cbn [subs1 depth]; auto.
  - destruct (String.eqb s x); auto. now apply psum_free_depth.
  - f_equal. rewrite map_map. apply map_ext_in. rewrite Forall_forall in H. auto.
  - f_equal. rewrite map_map. apply map_ext_in. rewrite Forall_forall in H. auto.
  - f_equal. rewrite map_map. apply map_ext_in. rewrite Forall_forall in H. auto.
  - destruct (mem x (names idx)); auto. cbn [depth]. rewrite IHe. do 3 f_equal.
    rewrite map_map. apply map_ext_in. intros p Hp. cbn [snd]. f_equal.
    rewrite map_map. apply map_ext_in. rewrite Forall_forall in H. specialize (H p Hp).
    rewrite Forall_forall in H. auto.
Qed.

Lemma depth_subs_seq sg : forall e, sub_ok sg e -> depth (subs_seq sg e) = depth e.
Proof.
  induction sg as [|[x v] t IH]; intros e Hok; auto.
  rewrite subs_seq_cons, IH by now apply sub_ok_tail.
  destruct (Hok x v (or_introl eq_refl)) as [Pv _]. now apply depth_subs1.
Qed.

Lemma depth_evaluate b idx : wf (PSum b idx) -> depth (evaluate (PSum b idx)) <= depth b.
Proof.
  intros Hwf. pose proof Hwf as Hwf0. apply wf_PSum in Hwf as [Wb [Nd Hp]].
  cbn [evaluate]. rewrite dict_of_nodup by auto. cbn [depth]. apply lmax_le.
  intros d Hd. apply in_map_iff in Hd as [y [<- Hy]]. apply in_map_iff in Hy as [c [<- Hc]].
  rewrite depth_subs_seq; auto. eapply combi_sub_ok; eauto.
Qed.

Theorem doitF_complete n : forall e, wf e -> depth e < n -> psum_freeb (doitF n e) = true.
Proof.
  induction n as [|n IHn]; [intros; lia|].
  induction e using expr_ind2; intros Hwf Hd; try reflexivity.
  - change (doitF (S n) (Add l)) with (Add (map (doitF (S n)) l)). cbn [psum_freeb].
    apply forallb_forall. intros y Hy. apply in_map_iff in Hy as [z [<- Hz]].
    rewrite Forall_forall in H. apply H; auto.
    + unfold wf in Hwf. cbn [wfb] in Hwf. rewrite forallb_forall in Hwf. now apply Hwf.
    + cbn [depth] in Hd. assert (depth z <= lmax (map depth l)) by (apply lmax_ge, in_map; auto). lia.
  - change (doitF (S n) (Mul l)) with (Mul (map (doitF (S n)) l)). cbn [psum_freeb].
    apply forallb_forall. intros y Hy. apply in_map_iff in Hy as [z [<- Hz]].
    rewrite Forall_forall in H. apply H; auto.
    + unfold wf in Hwf. cbn [wfb] in Hwf. rewrite forallb_forall in Hwf. now apply Hwf.
    + cbn [depth] in Hd. assert (depth z <= lmax (map depth l)) by (apply lmax_ge, in_map; auto). lia.
  - change (doitF (S n) (Pow e1 e2)) with (Pow (doitF (S n) e1) (doitF (S n) e2)). cbn [psum_freeb].
    unfold wf in Hwf. cbn [wfb] in Hwf. apply andb_true_iff in Hwf as [W1 W2]. cbn [depth] in Hd.
    rewrite IHe1, IHe2; auto; lia.
  - change (doitF (S n) (Fn f l)) with (Fn f (map (doitF (S n)) l)). cbn [psum_freeb].
    apply forallb_forall. intros y Hy. apply in_map_iff in Hy as [z [<- Hz]].
    rewrite Forall_forall in H. apply H; auto.
    + unfold wf in Hwf. cbn [wfb] in Hwf. rewrite forallb_forall in Hwf. now apply Hwf.
    + cbn [depth] in Hd. assert (depth z <= lmax (map depth l)) by (apply lmax_ge, in_map; auto). lia.
  - rewrite doitF_S_PSum. apply IHn; [now apply wf_evaluate|].
    pose proof (depth_evaluate _ _ Hwf). cbn [depth] in Hd. lia.
Qed.

(* ------------------------------------------------------------------ *)
(* free symbols                                                        *)
(* ------------------------------------------------------------------ *)
Theorem free_symbols_PSum b idx s :
  In s (free_symbols (PSum b idx)) <->
  (In s (free_symbols b) \/ exists p v, In p idx /\ In v (snd p) /\ In s (free_symbols v))
  /\ ~ In s (names idx).
Proof.
  cbn [free_symbols]. rewrite remove_all_In, in_app_iff. split; intros [H Hn]; split; auto.
  - destruct H as [H|H]; auto. apply in_flat_map in H as [p [Hp [<-|H]]].
    + exfalso. apply Hn. unfold names. now apply in_map.
    + apply in_flat_map in H as [v [Hv H]]. right. eauto.
  - destruct H as [H|[p [v [Hp [Hv H]]]]]; auto. right. apply in_flat_map. exists p. split; auto.
    right. apply in_flat_map. eauto.
Qed.

Lemma free_symbols_fv e : wf e -> forall s, In s (free_symbols e) <-> In s (fv e).
Proof.
  induction e using expr_ind2; intros Hwf s0; try tauto.
  - cbn [free_symbols fv]. rewrite !in_flat_map. rewrite Forall_forall in H.
    unfold wf in Hwf. cbn [wfb] in Hwf. rewrite forallb_forall in Hwf.
    split; intros [x [Hx Hs]]; exists x; split; auto; apply (H x Hx (Hwf x Hx)); auto.
  - cbn [free_symbols fv]. rewrite !in_flat_map. rewrite Forall_forall in H.
    unfold wf in Hwf. cbn [wfb] in Hwf. rewrite forallb_forall in Hwf.
    split; intros [x [Hx Hs]]; exists x; split; auto; apply (H x Hx (Hwf x Hx)); auto.
  - cbn [free_symbols fv]. unfold wf in Hwf. cbn [wfb] in Hwf. apply andb_true_iff in Hwf as [W1 W2].
    rewrite !in_app_iff, (IHe1 W1), (IHe2 W2). tauto.
  - cbn [free_symbols fv]. rewrite !in_flat_map. rewrite Forall_forall in H.
    unfold wf in Hwf. cbn [wfb] in Hwf. rewrite forallb_forall in Hwf.
    split; intros [x [Hx Hs]]; exists x; split; auto; apply (H x Hx (Hwf x Hx)); auto.
  - rewrite free_symbols_PSum. apply wf_PSum in Hwf as [Wb [Nd Hp]].
    cbn [fv]. rewrite in_app_iff, remove_all_In, (IHe Wb). rewrite Forall_forall in H.
    split.
    + intros [[Hs|[p [v [Hpi [Hv Hs]]]]] Hn]; auto. right.
      apply in_flat_map. exists p. split; auto. apply in_flat_map. exists v. split; auto.
      specialize (H p Hpi). rewrite Forall_forall in H. apply H; auto.
      destruct (Hp p Hpi) as [_ Hq]. destruct (Hq v Hv). now apply psum_free_wf.
    + intros [[Hs Hn]|Hs]; [tauto|].
      apply in_flat_map in Hs as [p [Hpi Hs]]. apply in_flat_map in Hs as [v [Hv Hs]].
      destruct (Hp p Hpi) as [_ Hq]. destruct (Hq v Hv) as [Pf Hd]. split.
      * right. exists p, v. repeat split; auto.
        specialize (H p Hpi). rewrite Forall_forall in H. apply H; auto. now apply psum_free_wf.
      * intros Hin. apply (Hd s0 Hs). apply in_or_app. auto.
Qed.

(* ------------------------------------------------------------------ *)
(* cleanup                                                             *)
(* ------------------------------------------------------------------ *)
Definition keepM (rel : string -> bool) (p : index) : bool :=
  rel (fst p) && negb (Nat.eqb (length (snd p)) 1).
Definition keepS (rel : string -> bool) (p : index) : bool :=
  rel (fst p) && Nat.eqb (length (snd p)) 1.

Lemma cleanup_unfold b idx :
  (forall p, In p idx -> snd p <> []) -> NoDup (names idx) ->
  let rel := fun s => mem s (free_symbols b) in
  let S := map (fun p => (fst p, hd (Num 0 1) (snd p))) (filter (keepS rel) idx) in
  cleanup (PSum b idx) =
  match filter (keepM rel) idx with
  | [] => xreplace (srule S) b
  | _ => PSum (xreplace (srule S) b) (filter (keepM rel) idx)
  end.
Proof.
  intros Hne Nd rel S. unfold cleanup.
  assert (E : filter (fun p => mem (fst p) (free_symbols b) && negb (Nat.eqb (length (snd p)) 0)) idx
              = filter (fun p => rel (fst p)) idx).
  { apply filter_ext_in. intros p Hp. specialize (Hne p Hp). unfold rel.
    destruct (snd p); [congruence|]. cbn. now rewrite andb_true_r. }
  rewrite E, !filter_filter.
  change (fun x : index => rel (fst x) && Nat.eqb (length (snd x)) 1) with (keepS rel).
  change (fun x : index => rel (fst x) && negb (Nat.eqb (length (snd x)) 1)) with (keepM rel).
  rewrite dict_of_nodup.
  - fold S. unfold srule. reflexivity.
  - rewrite map_map. cbn [fst]. now apply NoDup_map_filter.
Qed.

Lemma length1 {X} (l : list X) : Nat.eqb (length l) 1 = true -> exists x, l = [x].
Proof. destruct l as [|x [|y t]]; cbn; try discriminate. eauto. Qed.

Lemma NoDup_map_inj {X} (f : X -> string) l a b :
  NoDup (map f l) -> In a l -> In b l -> f a = f b -> a = b.
Proof.
  induction l as [|x r IH]; cbn; intros Nd Ha Hb E; [tauto|]. inversion Nd; subst.
  destruct Ha as [->|Ha], Hb as [->|Hb]; auto.
  - exfalso. apply H1. rewrite E. now apply in_map.
  - exfalso. apply H1. rewrite <- E. now apply in_map.
Qed.

Lemma prod_single {X} (d : X) ps : product ([d] :: ps) = map (cons d) (product ps).
Proof. cbn. now rewrite app_nil_r. Qed.

Section Cleanup.
  Variable A : alg.
  Notation env := (string -> V A).
  Variable r0 : env.
  Variable G : env -> V A.
  Variable rel : string -> bool.
  Hypothesis G_ext : forall r r' : env, (forall s, rel s = true -> r s = r' s) -> G r = G r'.

  Definition dpools (idx : list index) := map (fun p => map (den r0) (snd p)) idx.
  Definition SSd (idx : list index) : list (string * V A) :=
    map (fun p => (fst p, den r0 (hd (Num 0 1) (snd p)))) (filter (keepS rel) idx).

  Lemma SSd_keys idx s : In s (map fst (SSd idx)) -> In s (names idx).
  Proof.
    unfold SSd. rewrite map_map. cbn [fst]. intros H. apply in_map_iff in H as [p [<- Hp]].
    apply filter_In in Hp as [Hp _]. unfold names. now apply in_map.
  Qed.

  Lemma cleanup_sum idx :
    NoDup (names idx) ->
    (forall p, In p idx -> rel (fst p) = true \/ length (snd p) = 1) ->
    forall r : env,
      map (fun dc => G (bind r (combine (names idx) dc))) (product (dpools idx)) =
      map (fun dc => G (bind (bind r (SSd idx)) (combine (names (filter (keepM rel) idx)) dc)))
          (product (dpools (filter (keepM rel) idx))).
  Proof.
    induction idx as [|[k vs] rest IH]; intros Nd Hyp r; [reflexivity|].
    cbn [names map fst] in Nd. inversion Nd as [|? ? Hk Nd']; subst.
    assert (Hyp' : forall p, In p rest -> rel (fst p) = true \/ length (snd p) = 1)
      by (intros; apply Hyp; cbn; auto).
    specialize (IH Nd' Hyp').
    destruct (Nat.eqb (length vs) 1) eqn:L.
    - (* singleton pool *)
      destruct (length1 _ L) as [v ->].
      assert (EM : filter (keepM rel) ((k, [v]) :: rest) = filter (keepM rel) rest).
      { cbn [filter]. unfold keepM at 1. cbn. now rewrite andb_false_r. }
      rewrite EM.
      assert (EL : map (fun dc => G (bind r (combine (names ((k, [v]) :: rest)) dc)))
                       (product (dpools ((k, [v]) :: rest)))
                   = map (fun dc => G (bind (upd r k (den r0 v)) (combine (names rest) dc)))
                         (product (dpools rest))).
      { unfold dpools. cbn [map snd names fst]. rewrite prod_single, map_map. reflexivity. }
      rewrite EL.
      destruct (rel k) eqn:R.
      + assert (ES : SSd ((k, [v]) :: rest) = (k, den r0 v) :: SSd rest).
        { unfold SSd. cbn [filter]. unfold keepS at 1. cbn [fst snd length]. rewrite R. reflexivity. }
        rewrite ES, bind_cons. apply IH.
      + assert (ES : SSd ((k, [v]) :: rest) = SSd rest).
        { unfold SSd. cbn [filter]. unfold keepS at 1. cbn [fst snd length]. rewrite R. reflexivity. }
        rewrite ES. etransitivity; [apply IH|].
        apply map_ext. intros dc. apply G_ext. intros s Hs.
        apply (bind_agree_on A (fun s => rel s = true)); auto. intros s1 Hs1.
        apply (bind_agree_on A (fun s => rel s = true)); auto.
        intros s' Hs'. unfold upd. destruct (String.eqb_spec s' k); auto. congruence.
    - (* pool that is kept *)
      assert (R : rel k = true).
      { destruct (Hyp (k, vs) (or_introl eq_refl)) as [H|H]; auto. cbn in H.
        rewrite H in L. discriminate. }
      assert (EM : filter (keepM rel) ((k, vs) :: rest) = (k, vs) :: filter (keepM rel) rest).
      { cbn [filter]. unfold keepM at 1. cbn [fst snd]. now rewrite R, L. }
      assert (ES : SSd ((k, vs) :: rest) = SSd rest).
      { unfold SSd. cbn [filter]. unfold keepS at 1. cbn [fst snd]. now rewrite R, L. }
      rewrite EM, ES. unfold dpools. cbn [map snd product names fst].
      fold (dpools rest). fold (dpools (filter (keepM rel) rest)).
      fold (names rest). fold (names (filter (keepM rel) rest)).
      rewrite !map_flat_map. apply flat_map_map_ext. intros d Hd. rewrite !map_map.
      etransitivity; [apply (IH (upd r k d))|].
      apply map_ext. intros dc. cbn [combine]. rewrite bind_cons. apply G_ext. intros s _.
      apply (bind_agree_on A (fun _ => True)); auto. intros s' _.
      apply bind_upd_comm. intros Hin. apply Hk. now apply SSd_keys.
  Qed.
End Cleanup.

Section CleanupThm.
  Variable A : alg.
  Notation env := (string -> V A).

  Lemma keepS_keepM_excl rel (p : index) : keepS rel p = true -> keepM rel p = true -> False.
  Proof.
    unfold keepS, keepM. destruct (rel (fst p)), (Nat.eqb (length (snd p)) 1); cbn; congruence.
  Qed.

  Theorem cleanup_den b idx (r : env) :
    wf (PSum b idx) ->
    (forall p, In p idx -> In (fst p) (free_symbols b) \/ length (snd p) = 1) ->
    den r (cleanup (PSum b idx)) = den r (PSum b idx).
  Proof.
    intros Hwf Hyp. pose proof Hwf as Hwf0. apply wf_PSum in Hwf as [Wb [Nd Hp]].
    rewrite cleanup_unfold; auto; [|intros p Hpi; apply (Hp p Hpi)].
    cbv zeta. set (rel := fun s => mem s (free_symbols b)).
    set (S := map (fun p => (fst p, hd (Num 0 1) (snd p))) (filter (keepS rel) idx)).
    set (b' := xreplace (srule S) b).
    remember (filter (keepM rel) idx) as M eqn:EM.
    assert (HS : forall k v, In (k, v) S ->
                 exists p, In p idx /\ k = fst p /\ In v (snd p) /\ keepS rel p = true).
    { intros k v Hin. unfold S in Hin. apply in_map_iff in Hin as [p [E Hpf]].
      apply filter_In in Hpf as [Hpi Hk]. exists p. inversion E; subst. repeat split; auto.
      unfold keepS in Hk. apply andb_true_iff in Hk as [_ Hk].
      destruct (length1 _ Hk) as [x ->]. cbn. auto. }
    assert (HSk : map fst S = names (filter (keepS rel) idx)).
    { unfold S. rewrite map_map. reflexivity. }
    assert (HMsub : forall s, In s (names M) -> In s (names idx)).
    { intros s Hs. subst M. unfold names in *. apply in_map_iff in Hs as [p [<- Hpf]].
      apply filter_In in Hpf as [Hpi _]. now apply in_map. }
    assert (Key : vsum (map (fun dc => den (bind r (combine (names M) dc)) b')
                            (product (map (fun p => map (den r) (snd p)) M)))
                  = den r (PSum b idx)).
    { cbn [den]. f_equal.
      rewrite (cleanup_sum A r (fun r' => den r' b) rel); auto.
      - rewrite <- EM. apply map_ext_in. intros dc Hdc.
        apply product_length in Hdc. unfold dpools in Hdc. rewrite map_length in Hdc.
        assert (Hkeys : map fst (combine (names M) dc) = names M).
        { apply combine_fst. unfold names. now rewrite map_length. }
        unfold b'. rewrite xreplace_srule_den; auto.
        + apply den_ext. intros s _.
          destruct (in_dec string_dec s (names M)) as [Hin|Hn].
          * rewrite (bind_in A _ (bind r (SSd A r rel idx)) r) by now rewrite Hkeys.
            unfold senv. rewrite lookup_None; auto. rewrite HSk. intros Hin2.
            unfold names in Hin, Hin2. subst M.
            apply in_map_iff in Hin as [p1 [E1 H1]]. apply in_map_iff in Hin2 as [p2 [E2 H2]].
            apply filter_In in H1 as [H1 K1]. apply filter_In in H2 as [H2 K2].
            assert (p1 = p2) by (eapply NoDup_map_inj; eauto; congruence). subst p2.
            eapply keepS_keepM_excl; eauto.
          * rewrite (bind_notin A _ (bind r (SSd A r rel idx))) by now rewrite Hkeys.
            rewrite bind_senvV.
            2:{ unfold SSd. rewrite map_map. cbn [fst]. apply NoDup_map_filter. exact Nd. }
            replace (SSd A r rel idx) with (map (fun kv => (fst kv, den r (snd kv))) S)
              by (unfold SSd, S; rewrite map_map; reflexivity).
            rewrite <- senv_senvV. unfold senv.
            destruct (lookup String.eqb S s) as [v|] eqn:L.
            -- apply den_ext. intros s' Hs'. apply bind_notin. rewrite Hkeys. intros Hin.
               apply lookup_In in L. destruct (HS _ _ L) as [p [Hpi [_ [Hv _]]]].
               destruct (Hp p Hpi) as [_ Hq]. destruct (Hq v Hv) as [_ Hd].
               apply (Hd s' Hs'). apply in_or_app. left. auto.
            -- apply bind_notin. now rewrite Hkeys.
        + intros k v Hin s Hs Hb. destruct (HS _ _ Hin) as [p [Hpi [_ [Hv _]]]].
          destruct (Hp p Hpi) as [_ Hq]. destruct (Hq v Hv) as [_ Hd].
          apply (Hd s Hs). apply in_or_app. auto.
      - intros r1 r2 Hr. apply den_ext. intros s Hs. apply Hr. unfold rel.
        apply mem_In. now apply free_symbols_fv.
      - intros p Hpi. destruct (Hyp p Hpi) as [H|H]; auto. left. unfold rel. now apply mem_In. }
    destruct M as [|m0 M'].
    - rewrite <- Key. cbn. symmetry. apply vadd_0_r.
    - rewrite <- Key. reflexivity.
  Qed.
End CleanupThm.

(* ------------------------------------------------------------------ *)
(* substitution: bound indices are left alone, free symbols commute    *)
(* ------------------------------------------------------------------ *)
Theorem subs1_bound_noop x v b idx : In x (names idx) -> subs1 x v (PSum b idx) = PSum b idx.
Proof. intros H. cbn [subs1]. apply mem_In in H. now rewrite H. Qed.

Theorem subs_seq_bound_noop sg b idx :
  (forall k v, In (k, v) sg -> In k (names idx)) -> subs_seq sg (PSum b idx) = PSum b idx.
Proof.
  induction sg as [|[x v] t IH]; intros H; auto.
  rewrite subs_seq_cons, subs1_bound_noop; [apply IH|]; intros; eapply H; cbn; eauto.
Qed.

Lemma filter_all_false {X} (f : X -> bool) l : (forall x, In x l -> f x = false) -> filter f l = [].
Proof. induction l; cbn; intros H; auto. rewrite H by auto. auto. Qed.

Theorem xreplace_bound_noop sg b idx :
  (forall k v, In (k, v) sg -> In k (names idx)) -> xreplace (srule sg) (PSum b idx) = PSum b idx.
Proof.
  intros H. rewrite xreplace_srule_PSum, filter_all_false; auto.
  intros [k v] Hin. cbn. apply negb_false_iff, mem_In. eauto.
Qed.

Section Commute.
  Variable A : alg.
  Notation env := (string -> V A).

  Theorem subs_evaluate_commute (r : env) x v b idx :
    wf (PSum b idx) -> psum_freeb v = true ->
    (forall s, In s (fv v) -> ~ In s (binders (PSum b idx))) ->
    den r (evaluate (subs1 x v (PSum b idx))) = den r (subs1 x v (evaluate (PSum b idx))) /\
    den r (subs1 x v (evaluate (PSum b idx))) = den (upd r x (den r v)) (PSum b idx).
  Proof.
    intros Hwf Pv Hnc. split.
    - rewrite evaluate_den by (apply wf_subs1; auto).
      rewrite subs1_den by auto.
      rewrite subs1_den; [now rewrite evaluate_den| now apply wf_evaluate|].
      intros s Hs Hb. apply (Hnc s Hs). cbn [binders]. apply in_or_app. right. apply in_or_app. left.
      eapply binders_evaluate; eauto.
    - rewrite subs1_den; [now rewrite evaluate_den| now apply wf_evaluate|].
      intros s Hs Hb. apply (Hnc s Hs). cbn [binders]. apply in_or_app. right. apply in_or_app. left.
      eapply binders_evaluate; eauto.
  Qed.

  Theorem subs_doit_commute (r : env) x v e :
    wf e -> psum_freeb v = true -> (forall s, In s (fv v) -> ~ In s (binders e)) ->
    den r (doit (subs1 x v e)) = den r (subs1 x v (doit e)) /\
    den r (subs1 x v (doit e)) = den (upd r x (den r v)) e.
  Proof.
    intros Hwf Pv Hnc.
    assert (Pd : psum_freeb (doit e) = true) by (apply doitF_complete; auto).
    assert (E : den r (subs1 x v (doit e)) = den (upd r x (den r v)) e).
    { rewrite subs1_den.
      - unfold doit. now rewrite doitF_den.
      - now apply psum_free_wf.
      - intros s _. rewrite psum_free_binders by auto. auto. }
    split; auto. rewrite E. unfold doit. rewrite doitF_den by (apply wf_subs1; auto).
    now apply subs1_den.
  Qed.
End Commute.

(* ------------------------------------------------------------------ *)
(* structural equality is equality                                     *)
(* ------------------------------------------------------------------ *)
Lemma list_eqb_eq {X} (eqb : X -> X -> bool) l :
  Forall (fun x => forall y, eqb x y = true -> x = y) l ->
  forall l', list_eqb eqb l l' = true -> l = l'.
Proof.
  induction 1 as [|x r Hx _ IH]; intros [|y r']; cbn; try discriminate; auto.
  intros H. apply andb_true_iff in H as [H1 H2]. f_equal; auto.
Qed.

Lemma expr_eqb_eq a : forall b, expr_eqb a b = true -> a = b.
Proof.
  induction a using expr_ind2; intros [] E; cbn [expr_eqb] in E; try discriminate.
  - apply String.eqb_eq in E. now subst.
  - apply andb_true_iff in E as [E1 E2]. apply Z.eqb_eq in E1. apply Pos.eqb_eq in E2. now subst.
  - f_equal. eapply list_eqb_eq; eauto.
  - f_equal. eapply list_eqb_eq; eauto.
  - apply andb_true_iff in E as [E1 E2]. f_equal; auto.
  - apply andb_true_iff in E as [E1 E2]. apply String.eqb_eq in E1. subst. f_equal.
    eapply list_eqb_eq; eauto.
  - apply andb_true_iff in E as [E1 E2]. f_equal; auto.
    eapply list_eqb_eq; [|exact E2].
    eapply Forall_impl; [|exact H]. intros [k vs] Hvs [k' vs'] E. cbn [fst snd] in *.
    apply andb_true_iff in E as [Ea Eb]. apply String.eqb_eq in Ea. subst. f_equal.
    eapply list_eqb_eq; eauto.
Qed.

(* ------------------------------------------------------------------ *)
(* HelicityModel.expression: unfold_poolsums keeps the value           *)
(* ------------------------------------------------------------------ *)
Section Unfold.
  Variable A : alg.
  Notation env := (string -> V A).

  Lemma xreplace_node_den kb kidx v :
    (forall r : env, den r (PSum kb kidx) = den r v) ->
    forall e (r : env), den r (xreplace [(PSum kb kidx, v)] e) = den r e.
  Proof.
    intros Hk. set (k := PSum kb kidx) in *.
    assert (Hl : forall e, lookup expr_eqb [(k, v)] e = if expr_eqb e k then Some v else None)
      by reflexivity.
    induction e using expr_ind2; intros r; cbn [xreplace]; rewrite Hl.
    - reflexivity.
    - reflexivity.
    - cbn [expr_eqb k]. cbn [den]. f_equal. rewrite map_map. apply map_ext_in.
      rewrite Forall_forall in H. auto.
    - cbn [expr_eqb k]. cbn [den]. f_equal. rewrite map_map. apply map_ext_in.
      rewrite Forall_forall in H. auto.
    - cbn [expr_eqb k]. cbn [den]. now rewrite IHe1, IHe2.
    - cbn [expr_eqb k]. cbn [den]. f_equal. rewrite map_map. apply map_ext_in.
      rewrite Forall_forall in H. auto.
    - destruct (expr_eqb (PSum e idx) k) eqn:E.
      + apply expr_eqb_eq in E. rewrite E. symmetry. apply Hk.
      + cbn [filter key_not_bound fst k]. cbn [den]. rewrite names_map_pools. f_equal.
        replace (map (fun p => map (den r) (snd p))
                     (map (fun p => (fst p, map (xreplace [(k, v)]) (snd p))) idx))
          with (map (fun p => map (den r) (snd p)) idx).
        * apply map_ext. intros dc. apply IHe.
        * rewrite map_map. apply map_ext_in. intros p Hp. cbn [snd]. rewrite map_map.
          apply map_ext_in. intros y Hy. rewrite Forall_forall in H. specialize (H p Hp).
          rewrite Forall_forall in H. symmetry. auto.
  Qed.

  Lemma psum_nodes_wf e : wf e -> forall nd, In nd (psum_nodes e) -> wf nd /\ exists b idx, nd = PSum b idx.
  Proof.
    induction e using expr_ind2; intros Hwf nd Hn; cbn [psum_nodes] in Hn; try (now destruct Hn).
    - apply in_flat_map in Hn as [x [Hx Hn]]. rewrite Forall_forall in H. apply (H x Hx); auto.
      unfold wf in Hwf. cbn [wfb] in Hwf. rewrite forallb_forall in Hwf. now apply Hwf.
    - apply in_flat_map in Hn as [x [Hx Hn]]. rewrite Forall_forall in H. apply (H x Hx); auto.
      unfold wf in Hwf. cbn [wfb] in Hwf. rewrite forallb_forall in Hwf. now apply Hwf.
    - unfold wf in Hwf. cbn [wfb] in Hwf. apply andb_true_iff in Hwf as [W1 W2].
      apply in_app_or in Hn as [Hn|Hn]; auto.
    - apply in_flat_map in Hn as [x [Hx Hn]]. rewrite Forall_forall in H. apply (H x Hx); auto.
      unfold wf in Hwf. cbn [wfb] in Hwf. rewrite forallb_forall in Hwf. now apply Hwf.
    - pose proof Hwf as Hwf0. apply wf_PSum in Hwf as [Wb [Nd Hp]].
      apply in_app_or in Hn as [Hn|Hn]; auto. apply in_app_or in Hn as [Hn|Hn].
      + apply in_flat_map in Hn as [p [Hpi Hn]]. apply in_flat_map in Hn as [y [Hy Hn]].
        rewrite Forall_forall in H. specialize (H p Hpi). rewrite Forall_forall in H.
        apply (H y Hy); auto. destruct (Hp p Hpi) as [_ Hq]. destruct (Hq y Hy).
        now apply psum_free_wf.
      + destruct Hn as [<-|[]]. split; eauto.
  Qed.

  Theorem unfold_poolsums_den e (r : env) : wf e -> den r (unfold_poolsums e) = den r e.
  Proof.
    intros Hwf. unfold unfold_poolsums.
    pose proof (psum_nodes_wf e Hwf) as Hn. revert Hn. generalize (psum_nodes e) as ns.
    intros ns. clear Hwf. generalize e as acc. induction ns as [|n t IH]; intros acc Hn; auto.
    cbn [fold_left]. rewrite IH by (intros; apply Hn; cbn; auto).
    destruct (Hn n (or_introl eq_refl)) as [Wn [b [idx ->]]].
    apply xreplace_node_den. intros r'. symmetry. now apply evaluate_den.
  Qed.

  Theorem model_expression_den e (r : env) : wf e -> den r (model_expression e) = den r e.
  Proof.
    intros Hwf. unfold model_expression.
    rewrite unfold_poolsums_den by now apply wf_evaluate. now apply evaluate_den.
  Qed.
End Unfold.

(* ------------------------------------------------------------------ *)
(* a concrete structure: the real numbers                               *)
(* ------------------------------------------------------------------ *)
Definition Ralg : alg :=
  {| V := R; vzero := 0%R; vadd := Rplus; vone := 1%R; vmul := Rmult;
     vpow := fun a b => Rpower a b;
     vnum := fun n d => (IZR n / IZR (Zpos d))%R;
     vfun := fun _ l => fold_right Rplus 0%R l;
     vadd_0_r := Rplus_0_r |}.

Definition doctest_unused : expr :=
  PSum (Sym "x") [("i", [Num 0 1; Num 1 1; Num 2 1])].

Lemma cleanup_doctest_unused : cleanup doctest_unused = Sym "x".
Proof. reflexivity. Qed.

Lemma cleanup_refuted :
  exists (A : alg) (r : string -> V A) (e : expr),
    wf e /\ den r (cleanup e) <> den r e.
Proof.
  exists Ralg, (fun _ => 1%R), doctest_unused. split; [reflexivity|].
  rewrite cleanup_doctest_unused. cbn. lra.
Qed.

Definition shadow_nest : expr :=
  PSum (PSum (Fn "f" [Sym "i"]) [("i", [Num 1 1; Num 2 1])]) [("i", [Num 5 1])].

Lemma shadow_doit : doit shadow_nest = Add [Add [Fn "f" [Num 1 1]; Fn "f" [Num 2 1]]].
Proof. reflexivity. Qed.

Definition dup_index : expr :=
  PSum (Fn "f" [Sym "i"]) [("i", [Num 1 1; Num 2 1]); ("i", [Num 3 1])].

Lemma dup_index_refuted :
  exists (A : alg) (r : string -> V A), den r (evaluate dup_index) <> den r dup_index.
Proof. exists Ralg, (fun _ => 0%R). cbn. lra. Qed.
