(* Selector_proofs.v -- lemmas about the model in Selector.v (C13).  No axioms. *)
From Coq Require Import String List ZArith QArith Bool Arith Lia Permutation.
From AV Require Import Selector.
Import ListNotations.
Local Open Scope list_scope.

(* ---------------------------------------------------------------- equalities *)
Lemma sc_and : forall a b : bool, (if a then b else false) = true <-> a = true /\ b = true.
Proof. intros [] []; simpl; intuition congruence. Qed.

Lemma Q_eqb_eq : forall a b, Q_eqb a b = true <-> a = b.
Proof.
  intros [n d] [n' d']; unfold Q_eqb; simpl. rewrite sc_and, Z.eqb_eq, Pos.eqb_eq.
  split; [intros [-> ->]; reflexivity | intros H; inversion H; auto].
Qed.
Lemma ostring_eqb_eq : forall a b, ostring_eqb a b = true <-> a = b.
Proof.
  intros [x|] [y|]; simpl; try (split; congruence).
  rewrite String.eqb_eq. split; congruence.
Qed.
Lemma onat_eqb_eq : forall a b, onat_eqb a b = true <-> a = b.
Proof.
  intros [x|] [y|]; simpl; try (split; congruence).
  rewrite Nat.eqb_eq. split; congruence.
Qed.
Lemma oZ_eqb_eq : forall a b, oZ_eqb a b = true <-> a = b.
Proof.
  intros [x|] [y|]; simpl; try (split; congruence).
  rewrite Z.eqb_eq. split; congruence.
Qed.
Lemma particle_eqb_eq : forall a b, particle_eqb a b = true <-> a = b.
Proof.
  intros [n l m w s r] [n' l' m' w' s' r']; unfold particle_eqb; simpl.
  rewrite !sc_and, !String.eqb_eq, Nat.eqb_eq, !Q_eqb_eq, ostring_eqb_eq.
  split; [intros [[[[[-> ->] ->] ->] ->] ->]; reflexivity | intros H; inversion H; tauto].
Qed.
Lemma state_eqb_eq : forall a b, state_eqb a b = true <-> a = b.
Proof.
  intros [p z] [p' z']; unfold state_eqb; simpl. rewrite sc_and, Z.eqb_eq, particle_eqb_eq.
  split; [intros [-> ->]; reflexivity | intros H; inversion H; auto].
Qed.
Lemma swid_eqb_eq : forall a b, swid_eqb a b = true <-> a = b.
Proof.
  intros [i s] [i' s']; unfold swid_eqb; simpl. rewrite sc_and, Z.eqb_eq, state_eqb_eq.
  split; [intros [-> ->]; reflexivity | intros H; inversion H; auto].
Qed.
Lemma interaction_eqb_eq : forall a b, interaction_eqb a b = true <-> a = b.
Proof.
  intros [l r] [l' r']; unfold interaction_eqb; simpl. rewrite sc_and, onat_eqb_eq, String.eqb_eq.
  split; [intros [-> ->]; reflexivity | intros H; inversion H; auto].
Qed.
Lemma decay_eqb_eq : forall a b, decay_eqb a b = true <-> a = b.
Proof.
  intros [p c1 c2 i] [p' c1' c2' i']; unfold decay_eqb; simpl.
  rewrite !sc_and, !Z.eqb_eq, !swid_eqb_eq, interaction_eqb_eq.
  split.
  - intros [[[[[[_ _] _] ->] ->] ->] ->]; reflexivity.
  - intros H; inversion H; subst; tauto.
Qed.
Lemma decay_eqb_refl : forall d, decay_eqb d d = true.
Proof. intros; apply decay_eqb_eq; reflexivity. Qed.
Lemma decay_eqb_neq : forall a b, decay_eqb a b = false <-> a <> b.
Proof.
  intros a b. destruct (decay_eqb a b) eqn:E.
  - apply decay_eqb_eq in E. split; [discriminate | congruence].
  - split; auto. intros _ H. apply decay_eqb_eq in H. congruence.
Qed.
Lemma decay_eqb_sym : forall a b, decay_eqb a b = decay_eqb b a.
Proof.
  intros a b. destruct (decay_eqb a b) eqn:E, (decay_eqb b a) eqn:E'; auto.
  - apply decay_eqb_eq in E; subst. rewrite decay_eqb_refl in E'. discriminate.
  - apply decay_eqb_eq in E'; subst. rewrite decay_eqb_refl in E. discriminate.
Qed.

Lemma list_eqb_eq : forall {X} (f : X -> X -> bool),
  (forall x y, f x y = true -> x = y) -> forall l l', list_eqb f l l' = true -> l = l'.
Proof.
  intros X f Hf; induction l as [|x r IH]; intros [|y r']; simpl; try congruence.
  intros H. apply andb_true_iff in H as [H1 H2]. f_equal; auto.
Qed.
Lemma edge_eqb_eq : forall a b, edge_eqb a b = true -> a = b.
Proof.
  intros [i f t] [i' f' t']; unfold edge_eqb; simpl. rewrite !sc_and, Z.eqb_eq, !oZ_eqb_eq.
  intros [[-> ->] ->]; reflexivity.
Qed.
Lemma transition_eqb_eq : forall a b, transition_eqb a b = true -> a = b.
Proof.
  intros [n e s i] [n' e' s' i']; unfold transition_eqb; simpl. rewrite !sc_and.
  intros [[[[H1 H2] _] H4] H5].
  apply list_eqb_eq in H1; [|intros x y; apply Z.eqb_eq].
  apply list_eqb_eq in H2; [|apply edge_eqb_eq].
  apply list_eqb_eq in H4.
  2:{ intros [k v] [k' v']; simpl. rewrite sc_and, Z.eqb_eq, interaction_eqb_eq. intros [-> ->]; auto. }
  apply list_eqb_eq in H5.
  2:{ intros [k v] [k' v']; simpl. rewrite sc_and, Z.eqb_eq, state_eqb_eq. intros [-> ->]; auto. }
  subst; reflexivity.
Qed.
(* ---------------------------------------------------------------- lookup / set_key *)
Lemma lookup_set_key_same : forall ch d b, lookup (set_key ch d b) d = Some b.
Proof.
  induction ch as [|[d' b'] r IH]; intros; simpl.
  - rewrite decay_eqb_refl; reflexivity.
  - destruct (decay_eqb d' d) eqn:E; simpl; rewrite E; auto.
Qed.
Lemma lookup_set_key_other : forall ch d b d', d' <> d -> lookup (set_key ch d b) d' = lookup ch d'.
Proof.
  induction ch as [|[d0 b0] r IH]; intros d b d' Hne; simpl.
  - assert (decay_eqb d d' = false) as -> by (apply decay_eqb_neq; congruence). reflexivity.
  - destruct (decay_eqb d0 d) eqn:E; simpl.
    + apply decay_eqb_eq in E; subst d0.
      assert (decay_eqb d d' = false) as -> by (apply decay_eqb_neq; congruence). reflexivity.
    + destruct (decay_eqb d0 d'); auto.
Qed.

Lemma lookup_app : forall ch ch' d,
  lookup (ch ++ ch') d = match lookup ch d with Some b => Some b | None => lookup ch' d end.
Proof.
  induction ch as [|[d0 b0] r IH]; intros; simpl; auto. destruct (decay_eqb d0 d); auto.
Qed.

Lemma lookup_set_default : forall ch d b d',
  lookup (set_default ch d b) d' =
  match lookup ch d' with Some x => Some x | None => if decay_eqb d d' then Some b else None end.
Proof.
  intros. unfold set_default. destruct (lookup ch d) eqn:E.
  - destruct (lookup ch d') eqn:E'; auto.
    destruct (decay_eqb d d') eqn:Q; auto. apply decay_eqb_eq in Q; subst. congruence.
  - rewrite lookup_app. simpl. reflexivity.
Qed.

Lemma lookup_assign_str : forall ch s b d,
  lookup (fst (assign_str ch s b)) d =
  match lookup ch d with
  | Some b0 => Some (if String.eqb (parent_name d) s then b else b0)
  | None => None
  end.
Proof.
  unfold assign_str; simpl. induction ch as [|[d0 b0] r IH]; intros; simpl; auto.
  destruct (String.eqb (parent_name d0) s) eqn:N; simpl; destruct (decay_eqb d0 d) eqn:E; auto;
    apply decay_eqb_eq in E; subst; rewrite N; reflexivity.
Qed.

Lemma found_assign_str : forall ch s b,
  snd (assign_str ch s b) = true <->
  exists d b0, lookup ch d = Some b0 /\ String.eqb (parent_name d) s = true.
Proof.
  unfold assign_str; simpl. intros ch s _. induction ch as [|[d0 b0] r IH]; simpl.
  - split; [discriminate | intros (d & b1 & H & _); discriminate].
  - rewrite orb_true_iff, IH. split.
    + intros [H | (d & b1 & H1 & H2)].
      * exists d0, b0. rewrite decay_eqb_refl. auto.
      * destruct (decay_eqb d0 d) eqn:E.
        -- apply decay_eqb_eq in E; subst. exists d, b0. rewrite decay_eqb_refl; auto.
        -- exists d, b1. rewrite E. auto.
    + intros (d & b1 & H1 & H2). destruct (decay_eqb d0 d) eqn:E.
      * apply decay_eqb_eq in E; subst. auto.
      * right. exists d, b1; auto.
Qed.

(* ---------------------------------------------------------------- what a selection denotes *)
Definition by_name (sel : selection) : option string :=
  match sel with SelStr s => Some s | SelParticle p => Some (p_name p) | _ => None end.

Definition one_decay (sel : selection) : option decay :=
  match sel with
  | SelDecay d => Some d
  | SelNode t n => match from_transition t n with inr d => Some d | inl _ => None end
  | _ => None
  end.

(* the decays a selection denotes: all with that parent-particle name / that one decay *)
Definition denotes (sel : selection) (d : decay) : bool :=
  match by_name sel, one_decay sel with
  | Some s, _ => String.eqb (parent_name d) s
  | None, Some d0 => decay_eqb d0 d
  | None, None => false
  end.

(* the builder of a single decay before -> after one assignment *)
Definition step1 (sel : selection) (b : builder) (d : decay) (cur : option builder) : option builder :=
  match by_name sel with
  | Some s => match cur with Some b0 => Some (if denotes sel d then b else b0) | None => None end
  | None => if denotes sel d then Some b else cur
  end.

Lemma lookup_step : forall ch sel b d,
  lookup (step ch (sel, b)) d = step1 sel b d (lookup ch d).
Proof.
  intros. unfold step, step1, denotes; simpl. destruct sel; simpl.
  - apply lookup_assign_str.
  - apply lookup_assign_str.
  - destruct (decay_eqb d0 d) eqn:E.
    + apply decay_eqb_eq in E; subst. apply lookup_set_key_same.
    + apply lookup_set_key_other. apply decay_eqb_neq in E. congruence.
  - destruct (from_transition t n) as [e|d0]; simpl; auto.
    destruct (decay_eqb d0 d) eqn:E.
    + apply decay_eqb_eq in E; subst. apply lookup_set_key_same.
    + apply lookup_set_key_other. apply decay_eqb_neq in E. congruence.
  - reflexivity.
  - reflexivity.
Qed.

Lemma assign_step : forall ch sel b ch' f, assign ch sel b = inr (ch', f) -> step ch (sel, b) = ch'.
Proof. intros. unfold step; simpl. rewrite H. reflexivity. Qed.

Lemma assign_error_denotes_nothing : forall ch sel b e,
  assign ch sel b = inl e -> (forall d, denotes sel d = false) /\ step ch (sel, b) = ch.
Proof.
  intros ch sel b e H. split.
  - intros d. destruct sel; simpl in H; try discriminate; unfold denotes; simpl; auto.
    destruct (from_transition t n); [reflexivity | discriminate].
  - unfold step; simpl. rewrite H. reflexivity.
Qed.

(* assign_exact *)
Lemma assign_exact_l : forall ch sel b ch' f,
  assign ch sel b = inr (ch', f) ->
  forall d,
    (denotes sel d = true ->
       match by_name sel with
       | Some _ => lookup ch' d = match lookup ch d with Some _ => Some b | None => None end
       | None => lookup ch' d = Some b
       end)
    /\ (denotes sel d = false -> lookup ch' d = lookup ch d).
Proof.
  intros ch sel b ch' f H d. apply assign_step in H. subst ch'.
  rewrite lookup_step. unfold step1. split; intros Hd; rewrite Hd.
  - destruct (by_name sel); auto.
  - destruct (by_name sel); auto. destruct (lookup ch d); auto.
Qed.

(* the "no resonance with that name" flag *)
Lemma assign_found_flag : forall ch sel b ch' f,
  assign ch sel b = inr (ch', f) ->
  (f = false <-> (by_name sel <> None /\ forall d b0, lookup ch d = Some b0 -> denotes sel d = false)).
Proof.
  intros ch sel b ch' f H.
  assert (Hn : forall s, assign ch sel b = inr (assign_str ch s b) -> by_name sel = Some s ->
            (f = false <-> (by_name sel <> None /\ forall d b0, lookup ch d = Some b0 -> denotes sel d = false))).
  { intros s Hs Hb. rewrite H in Hs. inversion Hs; subst. unfold denotes. rewrite Hb.
    split.
    - intros Hf. split; [congruence|]. intros d b0 Hl.
      destruct (String.eqb (parent_name d) s) eqn:E; auto.
      assert (snd (assign_str ch s b) = true) by (apply found_assign_str; eauto).
      unfold assign_str in *; simpl in *. congruence.
    - intros [_ Hall]. destruct (snd (assign_str ch s b)) eqn:E.
      + apply found_assign_str in E as (d & b0 & Hl & Hm). specialize (Hall d b0 Hl). congruence.
      + unfold assign_str in *; simpl in *. auto. }
  destruct sel; simpl in *.
  - eapply Hn; eauto.
  - eapply Hn; eauto.
  - inversion H; subst. split; [discriminate | intros [C _]; congruence].
  - destruct (from_transition t n); inversion H; subst. split; [discriminate | intros [C _]; congruence].
  - discriminate.
  - discriminate.
Qed.

(* ---------------------------------------------------------------- histories *)
Definition hist := list (selection * builder).

Lemma lookup_run_history : forall h ch d,
  lookup (run_history ch h) d = fold_left (fun cur sb => step1 (fst sb) (snd sb) d cur) h (lookup ch d).
Proof.
  unfold run_history. induction h as [|[sel b] r IH]; intros; simpl; auto.
  rewrite IH, lookup_step. reflexivity.
Qed.

Lemma step1_some : forall sel b d b0, exists b1, step1 sel b d (Some b0) = Some b1 /\
  b1 = if denotes sel d then b else b0.
Proof.
  intros. unfold step1. destruct (by_name sel); destruct (denotes sel d); eauto.
Qed.

Definition last_denoting (h : hist) (d : decay) (b0 : builder) : builder :=
  fold_left (fun cur sb => if denotes (fst sb) d then snd sb else cur) h b0.

Lemma history_fold_key : forall h d b0,
  fold_left (fun cur sb => step1 (fst sb) (snd sb) d cur) h (Some b0) = Some (last_denoting h d b0).
Proof.
  unfold last_denoting. induction h as [|[sel b] r IH]; intros; simpl; auto.
  destruct (step1_some sel b d b0) as (b1 & -> & ->). apply IH.
Qed.

Lemma last_denoting_spec : forall h d b0,
  ((forall sb, In sb h -> denotes (fst sb) d = false) /\ last_denoting h d b0 = b0)
  \/ (exists h1 sel b h2, h = h1 ++ (sel, b) :: h2 /\ denotes sel d = true
        /\ (forall sb, In sb h2 -> denotes (fst sb) d = false) /\ last_denoting h d b0 = b).
Proof.
  intros h d b0. induction h as [|[sel b] r IH] using rev_ind.
  - left. split; [intros sb []|reflexivity].
  - unfold last_denoting in *. rewrite fold_left_app; simpl.
    destruct (denotes sel d) eqn:E.
    + right. exists r, sel, b, []. repeat split; auto. intros sb [].
    + destruct IH as [[Hall Hv] | (h1 & s1 & b1 & h2 & -> & Hs & Hall & Hv)].
      * left. split; auto. intros sb Hin. apply in_app_or in Hin as [Hin | [<- | []]]; auto.
      * right. exists h1, s1, b1, (h2 ++ [(sel, b)]). rewrite <- app_assoc. simpl.
        repeat split; auto. intros sb Hin. apply in_app_or in Hin as [Hin | [<- | []]]; auto.
Qed.

Lemma run_history_keys_persist : forall h ch d b0, lookup ch d = Some b0 ->
  exists b1, lookup (run_history ch h) d = Some b1.
Proof.
  intros. rewrite lookup_run_history, H, history_fold_key. eauto.
Qed.

(* unchanged decays: a decay no selection of the history denotes keeps its builder, key or not *)
Lemma history_untouched : forall h ch d,
  (forall sb, In sb h -> denotes (fst sb) d = false) -> lookup (run_history ch h) d = lookup ch d.
Proof.
  induction h as [|[sel b] r IH]; intros ch d Hall; simpl; auto.
  unfold run_history in *; simpl. rewrite IH by (intros; apply Hall; right; auto).
  rewrite lookup_step. unfold step1. pose proof (Hall (sel, b) (or_introl eq_refl)) as E. simpl in E.
  rewrite E. destruct (by_name sel); auto. destruct (lookup ch d); auto.
Qed.
(* ---------------------------------------------------------------- initial selector *)
Lemma decays_of_nodes_in : forall t ns ds, decays_of_nodes t ns = inr ds ->
  forall n d, In n ns -> from_transition t n = inr d -> In d ds.
Proof.
  induction ns as [|n0 r IH]; intros ds H n d Hin Hd; simpl in *; [contradiction|].
  destruct (from_transition t n0) as [e|d0] eqn:E0; [discriminate|].
  destruct (decays_of_nodes t r) as [e|ds'] eqn:Er; [discriminate|]. inversion H; subst.
  destruct Hin as [<- | Hin].
  - left. congruence.
  - right. eapply IH; eauto.
Qed.

Lemma decays_of_all_in : forall ts ds, decays_of_all ts = inr ds ->
  forall t n d, In t ts -> In n (t_nodes t) -> from_transition t n = inr d -> In d ds.
Proof.
  induction ts as [|t0 r IH]; intros ds H t n d Hin Hn Hd; simpl in *; [contradiction|].
  destruct (decays_of t0) as [e|d0] eqn:E0; [discriminate|].
  destruct (decays_of_all r) as [e|ds'] eqn:Er; [discriminate|]. inversion H; subst.
  apply in_or_app. destruct Hin as [<- | Hin].
  - left. eapply decays_of_nodes_in; eauto.
  - right. eapply IH; eauto.
Qed.

Definition all_default (ch : choices) : Prop := forall d b, lookup ch d = Some b -> b = default_builder.

Lemma fold_set_key_default : forall ds ch,
  all_default ch ->
  all_default (fold_left (fun ch d => set_key ch d default_builder) ds ch)
  /\ (forall d, In d ds -> lookup (fold_left (fun ch d => set_key ch d default_builder) ds ch) d = Some default_builder)
  /\ (forall d b, lookup ch d = Some b -> lookup (fold_left (fun ch d => set_key ch d default_builder) ds ch) d = Some default_builder).
Proof.
  induction ds as [|d0 r IH]; intros ch Hd; simpl.
  - split; [exact Hd|]. split; [intros d []|]. intros d b H. rewrite H. f_equal. eapply Hd; eauto.
  - assert (Hd' : all_default (set_key ch d0 default_builder)).
    { intros d b H. destruct (decay_eqb d d0) eqn:E.
      - apply decay_eqb_eq in E; subst. rewrite lookup_set_key_same in H. congruence.
      - apply decay_eqb_neq in E. rewrite lookup_set_key_other in H by auto. eapply Hd; eauto. }
    destruct (IH _ Hd') as (A & B & C). split; [exact A|]. split.
    + intros d [<- | Hin]; auto. eapply C. apply lookup_set_key_same.
    + intros d b H. destruct (decay_eqb d d0) eqn:E.
      * apply decay_eqb_eq in E; subst. eapply C. apply lookup_set_key_same.
      * apply decay_eqb_neq in E. eapply C. rewrite lookup_set_key_other by auto. eauto.
Qed.

Lemma fold_set_default_default : forall ds ch,
  all_default ch ->
  all_default (fold_left (fun ch d => set_default ch d default_builder) ds ch)
  /\ (forall d, In d ds -> lookup (fold_left (fun ch d => set_default ch d default_builder) ds ch) d = Some default_builder)
  /\ (forall d b, lookup ch d = Some b -> lookup (fold_left (fun ch d => set_default ch d default_builder) ds ch) d = Some default_builder).
Proof.
  induction ds as [|d0 r IH]; intros ch Hd; simpl.
  - split; [exact Hd|]. split; [intros d []|]. intros d b H. rewrite H. f_equal. eapply Hd; eauto.
  - assert (Hd' : all_default (set_default ch d0 default_builder)).
    { intros d b H. rewrite lookup_set_default in H. destruct (lookup ch d) eqn:E.
      - inversion H; subst. eapply Hd; eauto.
      - destruct (decay_eqb d0 d); congruence. }
    assert (Hk : exists b, lookup (set_default ch d0 default_builder) d0 = Some b).
    { rewrite lookup_set_default. destruct (lookup ch d0); eauto. rewrite decay_eqb_refl. eauto. }
    destruct (IH _ Hd') as (A & B & C). split; [exact A|]. split.
    + intros d [<- | Hin]; auto. destruct Hk as [b Hb]. eapply C; eauto.
    + intros d b H. eapply C. rewrite lookup_set_default, H. reflexivity.
Qed.

Lemma all_default_nil : all_default [].
Proof. intros d b H; discriminate. Qed.

(* DynamicsSelector.__init__ : every node of every transition AND of every registered
   permutation graph is a key, and every key carries the non-dynamic default builder *)
Lemma init_covers : forall r ch, init r = inr ch ->
  all_default ch /\
  forall g n d, (In g (map fst r) \/ In g (flat_map snd r)) -> In n (t_nodes g) ->
    from_transition g n = inr d -> lookup ch d = Some default_builder.
Proof.
  intros r ch H. unfold init, init_pinned in H.
  destruct (decays_of_all (map fst r)) as [e|ds1] eqn:E1; [discriminate|].
  destruct (decays_of_all (flat_map snd r)) as [e|ds2] eqn:E2; [discriminate|].
  inversion H; subst; clear H.
  destruct (fold_set_key_default ds1 [] all_default_nil) as (A1 & B1 & _).
  destruct (fold_set_default_default ds2 _ A1) as (A2 & B2 & C2).
  split; auto. intros g n d [Hg | Hg] Hn Hd.
  - eapply C2. apply B1. eapply decays_of_all_in; eauto.
  - apply B2. eapply decays_of_all_in; eauto.
Qed.

Lemma init_pinned_covers : forall r ch, init_pinned r = inr ch ->
  all_default ch /\
  forall g n d, In g (map fst r) -> In n (t_nodes g) ->
    from_transition g n = inr d -> lookup ch d = Some default_builder.
Proof.
  intros r ch H. unfold init_pinned in H.
  destruct (decays_of_all (map fst r)) as [e|ds1] eqn:E1; [discriminate|].
  inversion H; subst; clear H.
  destruct (fold_set_key_default ds1 [] all_default_nil) as (A1 & B1 & _).
  split; auto. intros g n d Hg Hn Hd. apply B1. eapply decays_of_all_in; eauto.
Qed.

Lemma chains_covered_in : forall r chains, chains_covered r chains = true ->
  forall t, In t chains -> In t (flat_map snd r).
Proof.
  intros r chains H t Hin. unfold chains_covered in H. rewrite forallb_forall in H.
  specialize (H t Hin). apply existsb_exists in H as (g & Hg & E).
  apply transition_eqb_eq in E. subst; auto.
Qed.

(* every node of every formulated chain is a selector key after any history: its dynamics
   factor is the assigned builder applied to the node's own resonance and variable set *)
Lemma chain_nodes_are_keys : forall r ch0 chains h t n d,
  init r = inr ch0 -> chains_covered r chains = true -> In t chains -> In n (t_nodes t) ->
  from_transition t n = inr d ->
  node_dynamics (run_history ch0 h) t n =
    inr (Some (last_denoting h d default_builder, parent_particle d, varset_of t d)).
Proof.
  intros r ch0 chains h t n d Hi Hc Ht Hn Hd.
  destruct (init_covers _ _ Hi) as [_ Hk].
  assert (Hl : lookup ch0 d = Some default_builder).
  { eapply Hk; eauto. right. eapply chains_covered_in; eauto. }
  unfold node_dynamics. rewrite Hd, lookup_run_history, Hl, history_fold_key. reflexivity.
Qed.
(* ---------------------------------------------------------------- amplitude algebra *)
Section AmplitudeProofs.
  Variable A : Type.
  Variable mul : A -> A -> A.
  Variable one : A.
  Variable dynf : builder -> particle -> varset -> A.
  Hypothesis mul_assoc : forall x y z, mul x (mul y z) = mul (mul x y) z.
  Hypothesis mul_comm : forall x y, mul x y = mul y x.
  Hypothesis mul_one : forall x, mul x one = x.

  Let prod := prodA A mul one.

  Lemma fold_left_mul : forall l x, fold_left mul l x = mul x (prod l).
  Proof.
    induction l as [|y r IH]; intros x; simpl.
    - symmetry; apply mul_one.
    - rewrite IH. unfold prod; simpl. rewrite mul_assoc. reflexivity.
  Qed.

  Lemma reduce_left_prod : forall l, reduce_left A mul one l = prod l.
  Proof. intros [|x r]; simpl; auto. apply fold_left_mul. Qed.

  Lemma prod_pairs : forall (base : list A) (calls : list node_call),
    length base = length calls ->
    prod (map (fun bc => mul (fst bc) (call_factor A one dynf (snd bc))) (combine base calls))
    = mul (prod base) (prod (map (call_factor A one dynf) calls)).
  Proof.
    induction base as [|x r IH]; intros [|c cs] Hl; simpl in *; try discriminate.
    - symmetry; apply mul_one.
    - injection Hl as Hl. unfold prod in *; simpl. rewrite (IH cs Hl).
      set (P := prodA A mul one r). set (Q := prodA A mul one (map (call_factor A one dynf) cs)).
      set (f := call_factor A one dynf c).
      rewrite <- !mul_assoc. f_equal. rewrite !mul_assoc. rewrite (mul_comm f P). reflexivity.
  Qed.

  Lemma wrap_mul : forall coef pref x y, wrap A mul coef pref (mul x y) = mul (wrap A mul coef pref x) y.
  Proof.
    intros [c|] [p|] x y; simpl; auto.
    - rewrite <- !mul_assoc. f_equal. f_equal. apply mul_comm.
    - rewrite <- !mul_assoc. f_equal. apply mul_comm.
  Qed.

  (* dynamics_factor *)
  Lemma dynamics_factor_l : forall coef pref base calls,
    length base = length calls ->
    amp_with_dynamics A mul one dynf coef pref base calls
    = mul (amp_without_dynamics A mul one coef pref base) (prod (map (call_factor A one dynf) calls)).
  Proof.
    intros. unfold amp_with_dynamics, amp_without_dynamics.
    rewrite !reduce_left_prod. fold prod. rewrite prod_pairs by assumption. apply wrap_mul.
  Qed.
End AmplitudeProofs.

(* chain_calls produces one call per node *)
Lemma chain_calls_length : forall ch t ns cs, chain_calls ch t ns = inr cs -> length cs = length ns.
Proof.
  induction ns as [|n r IH]; intros cs H; simpl in *.
  - inversion H; reflexivity.
  - destruct (node_dynamics ch t n); [discriminate|]. destruct (chain_calls ch t r); [discriminate|].
    inversion H; subst; simpl. f_equal. apply IH. reflexivity.
Qed.

Lemma chain_calls_spec : forall ch t ns cs, chain_calls ch t ns = inr cs ->
  Forall2 (fun n c => node_dynamics ch t n = inr c) ns cs.
Proof.
  induction ns as [|n r IH]; intros cs H; simpl in *.
  - inversion H; constructor.
  - destruct (node_dynamics ch t n) eqn:E; [discriminate|]. destruct (chain_calls ch t r); [discriminate|].
    inversion H; subst. constructor; auto.
Qed.

(* ---------------------------------------------------------------- variable set *)
Lemma insertZ_perm : forall x l, Permutation (insertZ x l) (x :: l).
Proof.
  induction l as [|y r IH]; simpl; auto. destruct (Z.leb x y); auto.
  rewrite IH. apply perm_swap.
Qed.
Lemma sortZ_perm : forall l, Permutation (sortZ l) l.
Proof.
  induction l as [|x r IH]; simpl; auto. unfold sortZ in *; simpl.
  rewrite insertZ_perm. constructor. exact IH.
Qed.

Lemma lex_gt_asym : forall a b, lex_gt a b = true -> lex_gt b a = false.
Proof.
  induction a as [|x a IH]; intros [|y b]; simpl; try congruence.
  destruct (Z.ltb y x) eqn:E1, (Z.ltb x y) eqn:E2; try congruence.
  - apply Z.ltb_lt in E1, E2. lia.
  - intros H. apply IH; auto.
Qed.

Lemma find_edge_unique : forall t e, nodupZ (map e_id (t_edges t)) = true -> In e (t_edges t) ->
  find_edge t (e_id e) = Some e.
Proof.
  intros t e. unfold find_edge. induction (t_edges t) as [|e0 r IH]; simpl; intros Hn Hin; [contradiction|].
  apply andb_true_iff in Hn as [Hn1 Hn2].
  destruct Hin as [<- | Hin].
  - rewrite Z.eqb_refl. reflexivity.
  - destruct (Z.eqb (e_id e0) (e_id e)) eqn:E.
    + exfalso. apply negb_true_iff in Hn1.
      assert (existsb (Z.eqb (e_id e0)) (map e_id r) = true).
      { apply existsb_exists. exists (e_id e). split; auto. apply in_map; auto. }
      congruence.
    + auto.
Qed.

Lemma swid_of_id : forall t i w, swid_of t i = Some w -> w_id w = i.
Proof. intros t i w. unfold swid_of. destruct (assocZ (t_states t) i); intros H; inversion H; reflexivity. Qed.

Lemma wf_parts : forall t, wf_transition t = true ->
  nodupZ (map e_id (t_edges t)) = true /\
  (forall e, In e (t_edges t) ->
     leaves_fuel (length (t_edges t)) t (e_id e) = leaves_fuel (S (length (t_edges t))) t (e_id e)).
Proof.
  intros t H. unfold wf_transition in H. rewrite !andb_true_iff in H.
  destruct H as [[[H1 _] H3] _]. split; auto.
  intros e Hin. rewrite forallb_forall in H3. specialize (H3 e Hin).
  destruct (list_eq_dec Z.eq_dec _ _); [auto | discriminate].
Qed.

(* the invariant-mass symbol of the decaying state is built from exactly the final-state
   particles of its two daughters; the first daughter is the helicity state (the one whose
   attached final-state tuple is not the larger one) *)
Lemma from_transition_leaves : forall t n d, wf_transition t = true -> from_transition t n = inr d ->
  Permutation (leaves t (w_id (d_parent d))) (leaves t (w_id (d_c1 d)) ++ leaves t (w_id (d_c2 d)))
  /\ lex_gt (leaves t (w_id (d_c1 d))) (leaves t (w_id (d_c2 d))) = false
  /\ (exists ep e1 e2, In ep (t_edges t) /\ In e1 (t_edges t) /\ In e2 (t_edges t) /\
        e_to ep = Some n /\ e_from e1 = Some n /\ e_from e2 = Some n /\
        e_id ep = w_id (d_parent d) /\ e_id e1 = w_id (d_c1 d) /\ e_id e2 = w_id (d_c2 d))
  /\ assocZ (t_ints t) n = Some (d_int d).
Proof.
  intros t n d Hwf H. destruct (wf_parts t Hwf) as [Hnd Hst].
  unfold from_transition in H.
  destruct (in_edges t n) as [|p [|? ?]] eqn:Ein; try discriminate.
  destruct (out_edges t n) as [|a [|b [|? ?]]] eqn:Eout; try discriminate.
  assert (Hp : In p (t_edges t) /\ e_to p = Some n).
  { assert (In p (in_edges t n)) by (rewrite Ein; left; auto).
    unfold in_edges in H0. apply filter_In in H0 as [? E]. apply oZ_eqb_eq in E. auto. }
  assert (Ha : In a (t_edges t) /\ e_from a = Some n).
  { assert (In a (out_edges t n)) by (rewrite Eout; left; auto).
    unfold out_edges in H0. apply filter_In in H0 as [? E]. apply oZ_eqb_eq in E. auto. }
  assert (Hb : In b (t_edges t) /\ e_from b = Some n).
  { assert (In b (out_edges t n)) by (rewrite Eout; right; left; auto).
    unfold out_edges in H0. apply filter_In in H0 as [? E]. apply oZ_eqb_eq in E. auto. }
  destruct Hp as [Hp1 Hp2], Ha as [Ha1 Ha2], Hb as [Hb1 Hb2].
  (* leaves of the parent edge *)
  assert (Hlp : Permutation (leaves t (e_id p)) (leaves t (e_id a) ++ leaves t (e_id b))).
  { unfold leaves at 1. rewrite (Hst p Hp1). simpl.
    rewrite (find_edge_unique t p Hnd Hp1), Hp2, Eout. simpl. rewrite app_nil_r.
    apply sortZ_perm. }
  destruct (lex_gt (leaves t (e_id a)) (leaves t (e_id b))) eqn:Elex.
  - destruct (swid_of t (e_id p)) as [sp|] eqn:Sp; [|discriminate].
    destruct (swid_of t (e_id b)) as [s1|] eqn:S1; [|discriminate].
    destruct (swid_of t (e_id a)) as [s2|] eqn:S2; [|discriminate].
    destruct (assocZ (t_ints t) n) as [i|] eqn:Ei; [|discriminate].
    inversion H; subst; simpl.
    rewrite (swid_of_id _ _ _ Sp), (swid_of_id _ _ _ S1), (swid_of_id _ _ _ S2).
    split; [rewrite Hlp; apply Permutation_app_comm|].
    split; [apply lex_gt_asym; auto|].
    split; auto. exists p, b, a. repeat split; auto.
  - destruct (swid_of t (e_id p)) as [sp|] eqn:Sp; [|discriminate].
    destruct (swid_of t (e_id a)) as [s1|] eqn:S1; [|discriminate].
    destruct (swid_of t (e_id b)) as [s2|] eqn:S2; [|discriminate].
    destruct (assocZ (t_ints t) n) as [i|] eqn:Ei; [|discriminate].
    inversion H; subst; simpl.
    rewrite (swid_of_id _ _ _ Sp), (swid_of_id _ _ _ S1), (swid_of_id _ _ _ S2).
    split; [exact Hlp|]. split; auto.
    split; auto. exists p, a, b. repeat split; auto.
Qed.

Lemma varset_L : forall t d,
  v_L (varset_of t d) =
  match i_l (d_int d) with
  | Some l => Some l
  | None => if Nat.even (p_spin2 (parent_particle d)) then Some (Nat.div2 (p_spin2 (parent_particle d))) else None
  end.
Proof. reflexivity. Qed.

Lemma varset_names : forall t d,
  v_m (varset_of t d) = mass_name (leaves t (w_id (d_parent d))) /\
  v_ma (varset_of t d) = mass_name (leaves t (w_id (d_c1 d))) /\
  v_mb (varset_of t d) = mass_name (leaves t (w_id (d_c2 d))).
Proof. intros; repeat split. Qed.

Lemma varset_local : forall t t' d d',
  leaves t (w_id (d_parent d)) = leaves t' (w_id (d_parent d')) ->
  leaves t (w_id (d_c1 d)) = leaves t' (w_id (d_c1 d')) ->
  leaves t (w_id (d_c2 d)) = leaves t' (w_id (d_c2 d')) ->
  i_l (d_int d) = i_l (d_int d') -> p_spin2 (parent_particle d) = p_spin2 (parent_particle d') ->
  varset_of t d = varset_of t' d'.
Proof.
  intros t t' d d' H1 H2 H3 H4 H5. unfold varset_of, varset_of_parts, angular_momentum.
  rewrite H1, H2, H3, H4, H5. reflexivity.
Qed.
(* ---------------------------------------------------------------- parameter defaults *)
Local Open Scope string_scope.
Local Open Scope list_scope.

Lemma plookup_pset_same : forall ds k v, plookup (pset ds k v) k = Some v.
Proof.
  induction ds as [|[k0 v0] r IH]; intros; simpl.
  - rewrite String.eqb_refl; reflexivity.
  - destruct (String.eqb k0 k) eqn:E; simpl; rewrite E; auto.
Qed.
Lemma plookup_pset_other : forall ds k v k', k' <> k -> plookup (pset ds k v) k' = plookup ds k'.
Proof.
  induction ds as [|[k0 v0] r IH]; intros k v k' Hne; simpl.
  - destruct (String.eqb k k') eqn:E; auto. apply String.eqb_eq in E. congruence.
  - destruct (String.eqb k0 k) eqn:E; simpl.
    + apply String.eqb_eq in E; subst k0. destruct (String.eqb k k') eqn:E'; auto.
      apply String.eqb_eq in E'. congruence.
    + destruct (String.eqb k0 k'); auto.
Qed.

Lemma add_param_fst : forall st k v, fst (add_param st (k, v)) = pset (fst st) k v.
Proof.
  intros [ds ws] k v; simpl. destruct (plookup ds k); [destruct (Q_eqb v q)|]; reflexivity.
Qed.

Lemma add_param_cases : forall ds ws k v,
  add_param (ds, ws) (k, v) =
  (pset ds k v, match plookup ds k with
                | Some old => if Q_eqb v old then ws else (ws ++ [(k, v, old)])%list
                | None => ws end).
Proof. intros; simpl. destruct (plookup ds k); [destruct (Q_eqb v q)|]; reflexivity. Qed.

(* the value of the LAST contribution with name k *)
Fixpoint last_assoc (cs : params) (k : string) : option Q :=
  match cs with
  | [] => None
  | (k', v) :: r =>
    match last_assoc r k with
    | Some x => Some x
    | None => if String.eqb k' k then Some v else None
    end
  end.

Lemma defaults_last_wins_l : forall cs st k,
  plookup (fst (fold_left add_param cs st)) k =
  match last_assoc cs k with Some v => Some v | None => plookup (fst st) k end.
Proof.
  induction cs as [|[k0 v0] r IH]; intros st k; simpl; auto.
  rewrite IH. destruct (last_assoc r k); auto.
  rewrite add_param_fst. destruct (String.eqb k0 k) eqn:E.
  - apply String.eqb_eq in E; subst. apply plookup_pset_same.
  - apply plookup_pset_other. intros ->. rewrite String.eqb_refl in E. discriminate.
Qed.

Lemma last_assoc_in : forall cs k v, last_assoc cs k = Some v -> In (k, v) cs.
Proof.
  induction cs as [|[k0 v0] r IH]; simpl; intros k v H; [discriminate|].
  destruct (last_assoc r k) eqn:E.
  - inversion H; subst. right; auto.
  - destruct (String.eqb k0 k) eqn:E'; [|discriminate]. apply String.eqb_eq in E'.
    inversion H; subst. left; reflexivity.
Qed.
Lemma in_last_assoc : forall cs k v, In (k, v) cs -> exists v', last_assoc cs k = Some v'.
Proof.
  induction cs as [|[k0 v0] r IH]; simpl; intros k v H; [contradiction|].
  destruct H as [H | H].
  - inversion H; subst. destruct (last_assoc r k); eauto. rewrite String.eqb_refl. eauto.
  - destruct (IH _ _ H) as [v' ->]. eauto.
Qed.

Definition consistent (cs : params) : Prop :=
  forall k v v', In (k, v) cs -> In (k, v') cs -> v = v'.

Lemma Q_eqb_refl : forall q, Q_eqb q q = true.
Proof. intros; apply Q_eqb_eq; reflexivity. Qed.

Lemma no_warning_gen : forall cs ds ws,
  consistent cs -> (forall k v old, In (k, v) cs -> plookup ds k = Some old -> v = old) ->
  snd (fold_left add_param cs (ds, ws)) = ws.
Proof.
  induction cs as [|[k0 v0] r IH]; intros ds ws Hc Hinv; cbn [fold_left]; [reflexivity|].
  rewrite add_param_cases.
  assert (Hw : match plookup ds k0 with
               | Some old => if Q_eqb v0 old then ws else (ws ++ [(k0, v0, old)])%list
               | None => ws end = ws).
  { destruct (plookup ds k0) eqn:E; auto.
    rewrite (Hinv k0 v0 q (or_introl eq_refl) E), Q_eqb_refl. reflexivity. }
  rewrite Hw. apply IH.
  - intros k v v' H1 H2. eapply Hc; right; eauto.
  - intros k v old Hin Hl. destruct (String.eqb k0 k) eqn:E.
    + apply String.eqb_eq in E; subst. rewrite plookup_pset_same in Hl. inversion Hl; subst.
      eapply Hc; [right; eauto | left; reflexivity].
    + rewrite plookup_pset_other in Hl.
      * eapply Hinv; [right; eauto | eauto].
      * intros ->. rewrite String.eqb_refl in E. discriminate.
Qed.

Lemma consistent_no_warning : forall cs, consistent cs -> snd (fold_left add_param cs ([], [])) = [].
Proof. intros. apply no_warning_gen; auto. intros k v old _ H0; discriminate. Qed.

Lemma consistent_final : forall cs k v, consistent cs -> In (k, v) cs ->
  plookup (fst (fold_left add_param cs ([], []))) k = Some v.
Proof.
  intros cs k v Hc Hin. rewrite defaults_last_wins_l.
  destruct (in_last_assoc _ _ _ Hin) as [v' E]. rewrite E. f_equal.
  eapply Hc; eauto. apply last_assoc_in; auto.
Qed.

(* every logged warning comes from two contributions of the same name with different values *)
Definition good_warning (L : params) (w : warning) : Prop :=
  let '(k, v, old) := w in In (k, v) L /\ In (k, old) L /\ v <> old.

Lemma plookup_in_keys : forall ds k v, plookup ds k = Some v -> In (k, v) ds.
Proof.
  induction ds as [|[k0 v0] r IH]; simpl; intros k v H; [discriminate|].
  destruct (String.eqb k0 k) eqn:E.
  - apply String.eqb_eq in E. inversion H; subst. left; reflexivity.
  - right; auto.
Qed.

Lemma warnings_sound_gen : forall cs pre ds ws,
  (forall k old, plookup ds k = Some old -> In (k, old) pre) ->
  (forall w, In w ws -> good_warning pre w) ->
  forall w, In w (snd (fold_left add_param cs (ds, ws))) -> good_warning (pre ++ cs) w.
Proof.
  induction cs as [|[k0 v0] r IH]; intros pre ds ws Hds Hws w Hin; cbn [fold_left] in Hin.
  - rewrite app_nil_r. auto.
  - rewrite add_param_cases in Hin.
    assert (Hpre : forall x, In x pre -> In x (pre ++ [(k0, v0)])) by (intros; apply in_or_app; auto).
    assert (Hnew : In (k0, v0) (pre ++ [(k0, v0)])) by (apply in_or_app; right; left; auto).
    assert (Hds' : forall k old, plookup (pset ds k0 v0) k = Some old -> In (k, old) (pre ++ [(k0, v0)])).
    { intros k old Hl. destruct (String.eqb k0 k) eqn:E.
      - apply String.eqb_eq in E; subst. rewrite plookup_pset_same in Hl. inversion Hl; subst; auto.
      - rewrite plookup_pset_other in Hl; auto. intros ->. rewrite String.eqb_refl in E. discriminate. }
    assert (Hgw : forall w0, good_warning pre w0 -> good_warning (pre ++ [(k0, v0)]) w0).
    { intros [[k v] old] (A & B & C). repeat split; auto. }
    replace (pre ++ (k0, v0) :: r) with ((pre ++ [(k0, v0)]) ++ r) by (rewrite <- app_assoc; reflexivity).
    eapply IH; [exact Hds' | | exact Hin].
    intros w0 H0. destruct (plookup ds k0) as [old|] eqn:El; [|apply Hgw; auto].
    destruct (Q_eqb v0 old) eqn:Eq; [apply Hgw; auto|].
    apply in_app_or in H0 as [H0 | [<- | []]]; [apply Hgw; auto|].
    repeat split; auto. intros ->. rewrite Q_eqb_refl in Eq. discriminate.
Qed.

Lemma warnings_sound : forall cs w, In w (snd (fold_left add_param cs ([], []))) -> good_warning cs w.
Proof.
  intros cs w H. change cs with ([] ++ cs). eapply warnings_sound_gen; eauto.
  - intros k old H0; discriminate.
  - intros w0 [].
Qed.

Lemma warnings_grow : forall cs st, exists ext, snd (fold_left add_param cs st) = (snd st ++ ext)%list.
Proof.
  induction cs as [|[k v] r IH]; intros [ds ws]; cbn [fold_left].
  - exists []. rewrite app_nil_r; auto.
  - rewrite add_param_cases. destruct (IH (pset ds k v, match plookup ds k with
                | Some old => if Q_eqb v old then ws else (ws ++ [(k, v, old)])%list
                | None => ws end)) as [ext ->]. cbn [snd].
    destruct (plookup ds k) as [old|]; [destruct (Q_eqb v old)|]; eauto.
    exists ((k, v, old) :: ext). rewrite <- app_assoc. reflexivity.
Qed.

Lemma no_warning_inv : forall cs ds ws, snd (fold_left add_param cs (ds, ws)) = ws ->
  consistent cs /\ (forall k v old, In (k, v) cs -> plookup ds k = Some old -> v = old).
Proof.
  induction cs as [|[k0 v0] r IH]; intros ds ws H; cbn [fold_left] in H.
  - split; [intros k v v' []|intros k v old []].
  - rewrite add_param_cases in H.
    assert (Hw : match plookup ds k0 with
                 | Some old => if Q_eqb v0 old then ws else (ws ++ [(k0, v0, old)])%list
                 | None => ws end = ws
                 /\ (forall old, plookup ds k0 = Some old -> v0 = old)).
    { destruct (plookup ds k0) as [old|] eqn:El; [|split; [auto|discriminate]].
      destruct (Q_eqb v0 old) eqn:Eq.
      - split; auto. intros o E; inversion E; subst. apply Q_eqb_eq; auto.
      - exfalso. destruct (warnings_grow r (pset ds k0 v0, (ws ++ [(k0, v0, old)])%list)) as [ext He].
        rewrite He in H. cbn [snd] in H. rewrite <- app_assoc in H.
        apply (f_equal (@length _)) in H. rewrite app_length in H. simpl in H. lia. }
    destruct Hw as [Hw Hold]. rewrite Hw in H.
    destruct (IH _ _ H) as [C I].
    assert (Hv0 : forall v, In (k0, v) r -> v = v0).
    { intros v Hin. eapply I; eauto. apply plookup_pset_same. }
    split.
    + intros k v v' [E1 | H1] [E2 | H2].
      * congruence.
      * inversion E1; subst. symmetry; auto.
      * inversion E2; subst. auto.
      * eapply C; eauto.
    + intros k v old [E1 | H1] Hl.
      * inversion E1; subst. auto.
      * destruct (String.eqb k0 k) eqn:E.
        -- apply String.eqb_eq in E; subst. rewrite (Hv0 _ H1). auto.
        -- eapply I; eauto. rewrite plookup_pset_other; auto.
           intros ->. rewrite String.eqb_refl in E. discriminate.
Qed.

Lemma no_warning_iff_consistent : forall cs,
  snd (fold_left add_param cs ([], [])) = [] <-> consistent cs.
Proof.
  intros cs. split; [|apply consistent_no_warning].
  intros H. apply (no_warning_inv cs [] [] H).
Qed.

(* contributions of the builder calls, flattened in formulation order *)
Fixpoint contribs (P : builder -> particle -> varset -> option params) (calls : list node_call)
  : option params :=
  match calls with
  | [] => Some []
  | None :: r => contribs P r
  | Some (b, p, vs) :: r =>
    match P b p vs, contribs P r with
    | Some ps, Some cs => Some (ps ++ cs)
    | _, _ => None
    end
  end.

Lemma collect_contribs : forall P calls st st', collect_params P calls st = inr st' ->
  exists cs, contribs P calls = Some cs /\ st' = fold_left add_param cs st.
Proof.
  induction calls as [|[[[b p] vs]|] r IH]; intros st st' H; simpl in *.
  - inversion H; subst. exists []; auto.
  - destruct (P b p vs) as [ps|]; [|discriminate].
    destruct (IH _ _ H) as (cs & -> & ->). exists (ps ++ cs). split; auto.
    unfold add_params. rewrite fold_left_app. reflexivity.
  - apply IH; auto.
Qed.

Lemma contribs_in : forall P calls cs k v, contribs P calls = Some cs -> In (k, v) cs ->
  exists b p vs ps, In (Some (b, p, vs)) calls /\ P b p vs = Some ps /\ In (k, v) ps.
Proof.
  induction calls as [|[[[b p] vs]|] r IH]; intros cs k v H Hin; simpl in *.
  - inversion H; subst. contradiction.
  - destruct (P b p vs) as [ps|] eqn:Ep; [|discriminate].
    destruct (contribs P r) as [cs'|] eqn:Ec; [|discriminate]. inversion H; subst.
    apply in_app_or in Hin as [Hin | Hin].
    + exists b, p, vs, ps. auto.
    + destruct (IH _ _ _ eq_refl Hin) as (b' & p' & vs' & ps' & A & B & C).
      exists b', p', vs', ps'. auto.
  - destruct (IH _ _ _ H Hin) as (b' & p' & vs' & ps' & A & B & C). exists b', p', vs', ps'. auto.
Qed.

Lemma contribs_of_call : forall P calls cs b p vs ps k v, contribs P calls = Some cs ->
  In (Some (b, p, vs)) calls -> P b p vs = Some ps -> In (k, v) ps -> In (k, v) cs.
Proof.
  induction calls as [|[[[b0 p0] vs0]|] r IH]; intros cs b p vs ps k v H Hin Hp Hk; simpl in *.
  - contradiction.
  - destruct (P b0 p0 vs0) as [ps0|] eqn:Ep; [|discriminate].
    destruct (contribs P r) as [cs'|] eqn:Ec; [|discriminate]. inversion H; subst.
    apply in_or_app. destruct Hin as [E | Hin].
    + inversion E; subst. left. congruence.
    + right. eapply IH; eauto.
  - destruct Hin as [E | Hin]; [discriminate|]. eapply IH; eauto.
Qed.

(* ------------------------------------------------ library builders: names and values *)
Lemma append_close_inj : forall x y : string, (x ++ "}")%string = (y ++ "}")%string -> x = y.
Proof.
  induction x as [|c x IH]; intros [|c' y] H; simpl in *; auto.
  - inversion H. destruct y; discriminate.
  - inversion H. destruct x; discriminate.
  - inversion H; subst. f_equal. auto.
Qed.

Lemma mass_par_inj : forall p q, mass_par p = mass_par q -> identifier p = identifier q.
Proof. unfold mass_par; simpl; intros p q H. inversion H. apply append_close_inj; auto. Qed.
Lemma width_par_inj : forall p q, width_par p = width_par q -> identifier p = identifier q.
Proof. unfold width_par; simpl; intros p q H. inversion H. apply append_close_inj; auto. Qed.
Lemma radius_par_inj : forall p q, radius_par p = radius_par q -> identifier p = identifier q.
Proof. unfold radius_par; simpl; intros p q H. inversion H. apply append_close_inj; auto. Qed.
Lemma mass_width_ne : forall p q, mass_par p <> width_par q.
Proof. unfold mass_par, width_par; simpl; intros p q H; discriminate. Qed.
Lemma mass_radius_ne : forall p q, mass_par p <> radius_par q.
Proof. unfold mass_par, radius_par; simpl; intros p q H; discriminate. Qed.
Lemma width_radius_ne : forall p q, width_par p <> radius_par q.
Proof. unfold width_par, radius_par; simpl; intros p q H; discriminate. Qed.

Definition lib_entry (p : particle) (kv : string * Q) : Prop :=
  kv = (mass_par p, p_mass p) \/ kv = (width_par p, p_width p) \/ kv = (radius_par p, 1%Q).

Lemma lib_params_shape : forall b p vs ps kv, lib_params b p vs = Some ps -> In kv ps -> lib_entry p kv.
Proof.
  intros b p vs ps kv H Hin. unfold lib_entry.
  destruct b as [|[|[|[|[|b]]]]]; simpl in H; try destruct (v_L vs); inversion H; subst; simpl in Hin;
    intuition (subst; auto).
Qed.

(* defaults_tabulated (per call) *)
Lemma lib_params_tabulated : forall b p vs ps, (b = B_BW \/ b = B_BW_FF \/ b = B_ANALYTIC) ->
  lib_params b p vs = Some ps ->
  In (mass_par p, p_mass p) ps /\ In (width_par p, p_width p) ps.
Proof.
  intros b p vs ps [-> | [-> | ->]] H; simpl in H; try destruct (v_L vs); inversion H; subst; simpl; auto.
Qed.

(* the forced hypothesis: particles with equal identifier have equal mass and width *)
Definition ident_determines (ps : list particle) : Prop :=
  forall p q, In p ps -> In q ps -> identifier p = identifier q ->
    p_mass p = p_mass q /\ p_width p = p_width q.

Definition call_particles (calls : list node_call) : list particle :=
  flat_map (fun c => match c with Some (_, p, _) => [p] | None => [] end) calls.

Lemma call_particles_in : forall calls b p vs, In (Some (b, p, vs)) calls -> In p (call_particles calls).
Proof.
  intros. unfold call_particles. apply in_flat_map. eexists; split; eauto. simpl; auto.
Qed.

Lemma lib_contribs_consistent : forall calls cs,
  ident_determines (call_particles calls) -> contribs lib_params calls = Some cs -> consistent cs.
Proof.
  intros calls cs Hid Hc k v v' H1 H2.
  destruct (contribs_in _ _ _ _ _ Hc H1) as (b1 & p1 & vs1 & ps1 & A1 & B1 & C1).
  destruct (contribs_in _ _ _ _ _ Hc H2) as (b2 & p2 & vs2 & ps2 & A2 & B2 & C2).
  pose proof (lib_params_shape _ _ _ _ _ B1 C1) as S1.
  pose proof (lib_params_shape _ _ _ _ _ B2 C2) as S2.
  pose proof (call_particles_in _ _ _ _ A1) as I1. pose proof (call_particles_in _ _ _ _ A2) as I2.
  unfold lib_entry in *.
  destruct S1 as [E1 | [E1 | E1]], S2 as [E2 | [E2 | E2]];
    injection E1 as K1 V1; injection E2 as K2 V2; subst v v'; rewrite K1 in K2.
  - apply mass_par_inj in K2. destruct (Hid p1 p2 I1 I2 K2); auto.
  - exfalso. eapply mass_width_ne; eauto.
  - exfalso. eapply mass_radius_ne; eauto.
  - exfalso. eapply mass_width_ne; eauto.
  - apply width_par_inj in K2. destruct (Hid p1 p2 I1 I2 K2); auto.
  - exfalso. eapply width_radius_ne; eauto.
  - exfalso. eapply mass_radius_ne; eauto.
  - exfalso. eapply width_radius_ne; eauto.
  - reflexivity.
Qed.
