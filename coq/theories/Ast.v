(* Ast.v — the one expression type all bridges serialise into.
   Hand-written, independent of /repo.  No proofs about the code here. *)
From Coq Require Export String List ZArith QArith Bool.
Export ListNotations.
Open Scope string_scope.

(* Heads of SymPy nodes.  Everything the analytic denotations interpret is an
   enumerated constructor (fast [cbv]); every other class of SymPy/ampform is
   [HOther "ClassName"]. *)
Inductive head :=
| HAdd | HMul | HPow
| HI | HPi | HNaN | HInf | HNegInf | HZoo
| HCos | HSin | HTan | HAcos | HAsin | HAtan | HAtan2
| HAbs | HConj | HLog | HExp | HSign | HRe | HIm
| HPiecewise | HPair
| HTrue | HFalse | HLt | HLe | HGt | HGe | HEq | HNe | HAnd | HOr | HNot
| HTuple | HIndexed | HStr (* a python str leaf, payload in HOther-less [Sym] *)
| HOther (s : string).

Inductive expr :=
| Sym (s : string)            (* sp.Symbol; in "assumption mode" the string also carries assumptions0 *)
| Num (q : Q)                 (* Integer / Rational / exactly-converted Float *)
| App (h : head) (args : list expr).

Definition head_eqb (a b : head) : bool :=
  match a, b with
  | HAdd, HAdd | HMul, HMul | HPow, HPow | HI, HI | HPi, HPi | HNaN, HNaN
  | HInf, HInf | HNegInf, HNegInf | HZoo, HZoo
  | HCos, HCos | HSin, HSin | HTan, HTan | HAcos, HAcos | HAsin, HAsin
  | HAtan, HAtan | HAtan2, HAtan2 | HAbs, HAbs | HConj, HConj | HLog, HLog
  | HExp, HExp | HSign, HSign | HRe, HRe | HIm, HIm | HPiecewise, HPiecewise
  | HPair, HPair | HTrue, HTrue | HFalse, HFalse | HLt, HLt | HLe, HLe
  | HGt, HGt | HGe, HGe | HEq, HEq | HNe, HNe | HAnd, HAnd | HOr, HOr
  | HNot, HNot | HTuple, HTuple | HIndexed, HIndexed | HStr, HStr => true
  | HOther s, HOther t => String.eqb s t
  | _, _ => false
  end.

Definition Q_eqb (p q : Q) : bool :=
  Z.eqb (Qnum p) (Qnum q) && Pos.eqb (Qden p) (Qden q).

(* Syntactic equality (the serialiser emits rationals in lowest terms, so
   component-wise comparison of [Q] is SymPy's [==] on numbers). *)
Fixpoint expr_eqb (a b : expr) {struct a} : bool :=
  match a, b with
  | Sym s, Sym t => String.eqb s t
  | Num p, Num q => Q_eqb p q
  | App h xs, App k ys =>
      head_eqb h k &&
      (fix go (xs ys : list expr) {struct xs} : bool :=
         match xs, ys with
         | [], [] => true
         | x :: xs', y :: ys' => expr_eqb x y && go xs' ys'
         | _, _ => false
         end) xs ys
  | _, _ => false
  end.

Definition list_eqb {A} (eqb : A -> A -> bool) : list A -> list A -> bool :=
  fix go xs ys :=
    match xs, ys with
    | [], [] => true
    | x :: xs', y :: ys' => eqb x y && go xs' ys'
    | _, _ => false
    end.

Lemma expr_eqb_App h xs k ys :
  expr_eqb (App h xs) (App k ys) = head_eqb h k && list_eqb expr_eqb xs ys.
Proof.
  cbn [expr_eqb]. destruct (head_eqb h k); cbn [andb]; [|reflexivity]. revert ys.
  induction xs as [|x xs IH]; intros [|y ys]; cbn; reflexivity.
Qed.

(* A strong induction principle over the nested type. *)
Section ExprInd.
  Variable P : expr -> Prop.
  Hypothesis HSym : forall s, P (Sym s).
  Hypothesis HNum : forall q, P (Num q).
  Hypothesis HApp : forall h args, Forall P args -> P (App h args).
  Fixpoint expr_ind' (e : expr) : P e :=
    match e with
    | Sym s => HSym s
    | Num q => HNum q
    | App h args =>
        HApp h args
          ((fix go (l : list expr) : Forall P l :=
              match l with
              | [] => Forall_nil P
              | x :: l' => Forall_cons x (expr_ind' x) (go l')
              end) args)
    end.
End ExprInd.

Lemma head_eqb_refl h : head_eqb h h = true.
Proof. destruct h; cbn; auto using String.eqb_refl. Qed.

Lemma head_eqb_eq a b : head_eqb a b = true -> a = b.
Proof.
  destruct a, b; cbn; intros H; try discriminate; try reflexivity.
  apply String.eqb_eq in H. now subst.
Qed.

Lemma Q_eqb_eq p q : Q_eqb p q = true -> p = q.
Proof.
  destruct p as [a b], q as [c d]; unfold Q_eqb; cbn.
  intros H. apply andb_true_iff in H as [H1 H2].
  apply Z.eqb_eq in H1. apply Pos.eqb_eq in H2. now subst.
Qed.

Lemma Q_eqb_refl p : Q_eqb p p = true.
Proof. unfold Q_eqb. now rewrite Z.eqb_refl, Pos.eqb_refl. Qed.

Lemma expr_eqb_eq : forall a b, expr_eqb a b = true -> a = b.
Proof.
  induction a as [s|q|h xs IH] using expr_ind'; intros [t|r|k ys]; cbn [expr_eqb];
    try discriminate.
  - intros H. apply String.eqb_eq in H. now subst.
  - intros H. apply Q_eqb_eq in H. now subst.
  - fold (list_eqb expr_eqb). intros H.
    change ((head_eqb h k && list_eqb expr_eqb xs ys) = true) in H.
    apply andb_true_iff in H as [H1 H2]. apply head_eqb_eq in H1. subst k. f_equal.
    revert ys H2. induction IH as [|x xs Hx _ IHxs]; intros [|y ys]; cbn; try discriminate; auto.
    intros H. apply andb_true_iff in H as [Ha Hb]. f_equal; auto.
Qed.

Lemma expr_eqb_refl : forall a, expr_eqb a a = true.
Proof.
  induction a as [s|q|h xs IH] using expr_ind'.
  - apply String.eqb_refl.
  - apply Q_eqb_refl.
  - rewrite expr_eqb_App, head_eqb_refl. cbn.
    induction IH as [|x xs Hx _ IHxs]; cbn; auto. now rewrite Hx.
Qed.

Lemma expr_eqb_spec a b : reflect (a = b) (expr_eqb a b).
Proof.
  destruct (expr_eqb a b) eqn:E; constructor.
  - now apply expr_eqb_eq.
  - intros ->. now rewrite expr_eqb_refl in E.
Qed.
