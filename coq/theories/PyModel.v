(* PyModel.v — small object model + primitives that bridge/trans_decorator.py translates the helpers of
   src/ampform/sympy/_decorator.py into (build/C14/Gen_decorator.v), and the hand-written SPECIFICATIONS
   the generated definitions are proved equal to (coq/props/C14_lemmas.v).  No reference to /repo here. *)
From Coq Require Import String List Bool Arith Lia Permutation.
Import ListNotations.
Open Scope string_scope.
Open Scope list_scope.

(* ------------------------------------------------------------------ Python objects seen by _get_hashable_object *)
Inductive kind :=
| KFunction | KBuiltinFn | KMethod      (* inspect.isroutine *)
| KPartial | KCallableObj               (* callable instances (functools.partial, objects with __call__) *)
| KValueObj                             (* hashable instance with __eq__/__hash__, not callable *)
| KStrK | KNumK | KSympyK.              (* str / int,float,complex / sp.Basic *)

Inductive pyobj :=
| PNone
| PClass (q : string)                          (* a class; q = module.qualname *)
| PHash (k : kind) (id q : string)             (* hashable non-class object: identity up to ==, module.qualname *)
| PUnhash (s : string).                        (* unhashable object (list, dict); s = str(obj) *)

Inductive hkey := KStr (s : string) | KObj (o : pyobj).

Definition none_type : pyobj := PClass "builtins.NoneType".
Definition is_none (o : pyobj) : bool := match o with PNone => true | _ => false end.
Definition isclass (o : pyobj) : bool := match o with PClass _ => true | _ => false end.
Definition isfunction (o : pyobj) : bool := match o with PHash KFunction _ _ => true | _ => false end.
Definition isroutine (o : pyobj) : bool :=
  match o with PHash (KFunction | KBuiltinFn | KMethod) _ _ => true | _ => false end.
Definition callable (o : pyobj) : bool :=
  match o with
  | PClass _ => true
  | PHash (KFunction | KBuiltinFn | KMethod | KPartial | KCallableObj) _ _ => true
  | _ => false
  end.
Definition kind_eqb (a b : kind) : bool :=
  match a, b with
  | KFunction, KFunction | KBuiltinFn, KBuiltinFn | KMethod, KMethod | KPartial, KPartial
  | KCallableObj, KCallableObj | KValueObj, KValueObj | KStrK, KStrK | KNumK, KNumK | KSympyK, KSympyK => true
  | _, _ => false
  end.
Definition isinstance_of (ks : list kind) (o : pyobj) : bool :=
  match o with PHash k _ _ => existsb (kind_eqb k) ks | _ => false end.
Definition hash_raises (o : pyobj) : bool := match o with PUnhash _ => true | _ => false end.
(* f"{obj.__module__}.{obj.__qualname__}" *)
Definition qualified (o : pyobj) : string :=
  match o with PClass q => q | PHash _ _ q => q | PNone => "builtins.NoneType(instance)" | PUnhash s => "builtins.list" end.
(* str(obj): strings/numbers print their value, everything else its (address-bearing) default repr *)
Definition py_str (o : pyobj) : string :=
  match o with
  | PUnhash s => s
  | PNone => "None"
  | PClass q => String.append "<class '" (String.append q "'>")
  | PHash (KStrK | KNumK | KSympyK) id _ => id
  | PHash _ id q => String.append "<" (String.append q (String.append " object at " (String.append id ">")))
  end.

(* a Python str returned as "the object itself" IS the same key as that str returned by a formatting branch *)
Definition nkey (k : hkey) : hkey :=
  match k with KObj (PHash KStrK id _) => KStr id | _ => k end.

(* ------------------------------------------------------------------ values, fields, dicts, kwargs *)
Inductive pval :=
| VMissing                       (* dataclasses.MISSING *)
| VRaw (s : string)              (* a Python value that sympify converts (int, float, str ...) *)
| VSym (s : string)              (* a SymPy object *)
| VObj (o : pyobj).              (* any other Python object (non-SymPy attribute value) *)

Definition pval_eqb_missing (v : pval) : bool := match v with VMissing => true | _ => false end.
Definition is_missing := pval_eqb_missing.

Record pfield := { pf_name : string; pf_default : pval; pf_sym : bool }.
Definition pdict := list (pfield * pval).         (* insertion-ordered dict keyed by Field objects *)
Definition pkwargs := list (string * pval).       (* **kwargs: insertion (= call) order *)

Inductive result (A : Type) := Ok (a : A) | Err (which : nat) (names : list string).
Arguments Ok {A} a.
Arguments Err {A} which names.

Definition pfield_name_eqb (f g : pfield) : bool := String.eqb (pf_name f) (pf_name g).

(* d[k] = v *)
Fixpoint dict_set (d : pdict) (k : pfield) (v : pval) : pdict :=
  match d with
  | [] => [(k, v)]
  | (k', v') :: d' => if pfield_name_eqb k' k then (k', v) :: d' else (k', v') :: dict_set d' k v
  end.
Definition dict_items (d : pdict) : list (pfield * pval) := d.

Fixpoint kw_mem (n : string) (kw : pkwargs) : bool :=
  match kw with [] => false | (k, _) :: kw' => String.eqb k n || kw_mem n kw' end.
Fixpoint kw_get (n : string) (kw : pkwargs) : pval :=
  match kw with [] => VMissing | (k, v) :: kw' => if String.eqb k n then v else kw_get n kw' end.
Fixpoint kw_remove (n : string) (kw : pkwargs) : pkwargs :=
  match kw with [] => [] | (k, v) :: kw' => if String.eqb k n then kw' else (k, v) :: kw_remove n kw' end.
Definition is_nil {A} (l : list A) : bool := match l with [] => true | _ => false end.

(* ------------------------------------------------------------------ instances *)
Record pinst := { i_cls : list pfield; i_args : list pval; i_hints : pkwargs;
                  i_attrs : list (string * pval); i_evaluated : bool }.
Definition inst_fields (x : pinst) : list pfield := i_cls x.
Definition cls_fields (c : list pfield) : list pfield := c.
Fixpoint attr_set (l : list (string * pval)) (n : string) (v : pval) : list (string * pval) :=
  match l with
  | [] => [(n, v)]
  | (k, w) :: l' => if String.eqb k n then (k, v) :: l' else (k, w) :: attr_set l' n v
  end.
Definition set_attr (x : pinst) (n : string) (v : pval) : pinst :=
  {| i_cls := i_cls x; i_args := i_args x; i_hints := i_hints x; i_attrs := attr_set (i_attrs x) n v;
     i_evaluated := i_evaluated x |}.
Definition get_attr (x : pinst) (n : string) : pval := kw_get n (i_attrs x).
(* sp.Expr.__new__(cls, *sympy_args, **hints) *)
Definition expr_new (c : list pfield) (args : list pval) (hints : pkwargs) : pinst :=
  {| i_cls := c; i_args := args; i_hints := hints; i_attrs := []; i_evaluated := false |}.
Definition evaluated (x : pinst) : pinst :=
  {| i_cls := i_cls x; i_args := i_args x; i_hints := i_hints x; i_attrs := i_attrs x; i_evaluated := true |}.
Definition sympify (v : pval) : pval := match v with VRaw s => VSym s | _ => v end.
(* _safe_sympify(field, value): sympify iff the field is a SymPy field (error branch not modelled) *)
Definition safe_sympify (f : pfield) (v : pval) : pval := if pf_sym f then sympify v else v.
Definition is_sympify (f : pfield) : bool := pf_sym f.

(* ================================================================== SPECIFICATIONS (hand-written) *)

(* ---- _get_hashable_object ---- *)
Definition spec_hashable (o : pyobj) : hkey :=
  match o with
  | PNone => KStr "builtins.NoneType"
  | PClass q => KStr q
  | PUnhash s => KStr s
  | PHash _ _ _ => KObj o
  end.

(* objects whose key is a string: the only ones that can collide with something else *)
Definition stringly (o : pyobj) : bool :=
  match o with PHash KStrK _ _ => true | PHash _ _ _ => false | _ => true end.

Lemma spec_hashable_collisions o1 o2 :
  nkey (spec_hashable o1) = nkey (spec_hashable o2) ->
  o1 = o2 \/ (stringly o1 = true /\ stringly o2 = true) \/
  (exists id q q', o1 = PHash KStrK id q /\ o2 = PHash KStrK id q').
Proof.
  destruct o1 as [|q1|k1 i1 q1|s1], o2 as [|q2|k2 i2 q2|s2]; cbn; intros H; auto;
    try (destruct k1; cbn in H; try discriminate; auto);
    try (destruct k2; cbn in H; try discriminate; auto).
  all: try (inversion H; subst; auto; fail).
  all: try (destruct k2; cbn in H; try discriminate; inversion H; subst; eauto 8).
Qed.

Lemma spec_hashable_nonstring_injective k id q o :
  k <> KStrK -> nkey (spec_hashable (PHash k id q)) = nkey (spec_hashable o) -> o = PHash k id q.
Proof.
  intros Hk. destruct k; try congruence; destruct o as [|q2|k2 i2 q2|s2]; cbn; try discriminate;
    destruct k2; cbn; try discriminate; intros H; inversion H; reflexivity.
Qed.

(* ---- _extract_field_values ---- *)
Definition xstate := (pdict * pkwargs * list string)%type.

Definition spec_step (st : xstate) (field : pfield) : xstate :=
  let '(fields_with_values, kwargs, missing) := st in
  if kw_mem (pf_name field) kwargs
  then (dict_set fields_with_values field (kw_get (pf_name field) kwargs), kw_remove (pf_name field) kwargs, missing)
  else if is_missing (pf_default field)
       then (fields_with_values, kwargs, missing ++ [pf_name field])
       else (dict_set fields_with_values field (pf_default field), kwargs, missing).

Definition spec_extract (fields : list pfield) (args : list pval) (kwargs : pkwargs)
  : result (pdict * pkwargs) :=
  if Nat.eqb (length args) (length fields) then Ok (combine fields args, kwargs)
  else if Nat.ltb (length fields) (length args) then Err 0 []
  else
    let '(d, kw, missing) := fold_left spec_step (skipn (length args) fields) (combine fields args, kwargs, []) in
    if negb (is_nil missing) then Err 1 missing else Ok (d, kw).

(* closed form *)
Definition value_of (kwargs : pkwargs) (f : pfield) : pval :=
  if kw_mem (pf_name f) kwargs then kw_get (pf_name f) kwargs else pf_default f.
Definition is_unfilled (kwargs : pkwargs) (f : pfield) : bool :=
  negb (kw_mem (pf_name f) kwargs) && is_missing (pf_default f).
Definition names (fs : list pfield) : list string := map pf_name fs.
Definition kw_minus (kwargs : pkwargs) (ns : list string) : pkwargs :=
  filter (fun kv => negb (existsb (String.eqb (fst kv)) ns)) kwargs.

Lemma kw_mem_remove_other n m kw : n <> m -> kw_mem n (kw_remove m kw) = kw_mem n kw.
Proof.
  intros H. induction kw as [|[k v] kw IH]; cbn; auto.
  destruct (String.eqb k m) eqn:E; cbn.
  - apply String.eqb_eq in E. subst. destruct (String.eqb m n) eqn:E2; auto.
    apply String.eqb_eq in E2. congruence.
  - rewrite IH. reflexivity.
Qed.

Lemma kw_get_remove_other n m kw : n <> m -> kw_get n (kw_remove m kw) = kw_get n kw.
Proof.
  intros H. induction kw as [|[k v] kw IH]; cbn; auto.
  destruct (String.eqb k m) eqn:E; cbn.
  - apply String.eqb_eq in E. subst. destruct (String.eqb m n) eqn:E2; auto.
    apply String.eqb_eq in E2. congruence.
  - rewrite IH. reflexivity.
Qed.

Lemma kw_remove_absent n kw : kw_mem n kw = false -> kw_remove n kw = kw.
Proof.
  induction kw as [|[k v] kw IH]; cbn; auto. intros H. apply orb_false_iff in H as [H1 H2].
  rewrite H1, IH; auto.
Qed.

Lemma dict_set_fresh d f v :
  ~ In (pf_name f) (map (fun kv => pf_name (fst kv)) d) -> dict_set d f v = d ++ [(f, v)].
Proof.
  induction d as [|[k w] d IH]; cbn; intros H; auto.
  unfold pfield_name_eqb. destruct (String.eqb (pf_name k) (pf_name f)) eqn:E.
  - apply String.eqb_eq in E. exfalso. apply H. left. exact E.
  - rewrite IH; auto.
Qed.

(* the loop, in closed form: with distinct field names, the dict grows by the fields that get a value
   (in DECLARATION order), kwargs loses exactly the consumed names, missing collects the unfilled names *)
Lemma fold_spec_step rem : forall d kw missing,
  NoDup (names rem) ->
  (forall f, In f rem -> ~ In (pf_name f) (map (fun kv => pf_name (fst kv)) d)) ->
  fold_left spec_step rem (d, kw, missing) =
  (d ++ map (fun f => (f, value_of kw f)) (filter (fun f => negb (is_unfilled kw f)) rem),
   fold_left (fun k f => kw_remove (pf_name f) k) rem kw,
   missing ++ names (filter (is_unfilled kw) rem)).
Proof.
  induction rem as [|f rem IH]; intros d kw missing ND Fresh; cbn [fold_left].
  - cbn. rewrite !app_nil_r. reflexivity.
  - inversion ND as [|? ? Hnotin ND']; subst.
    assert (Hother : forall g, In g rem -> pf_name g <> pf_name f).
    { intros g Hg E. apply Hnotin. unfold names. rewrite <- E. apply in_map. exact Hg. }
    assert (Efilt1 : forall kw', (forall g, In g rem -> kw_mem (pf_name g) kw' = kw_mem (pf_name g) kw) ->
              (forall g, In g rem -> kw_get (pf_name g) kw' = kw_get (pf_name g) kw) ->
              filter (fun g => negb (is_unfilled kw' g)) rem = filter (fun g => negb (is_unfilled kw g)) rem /\
              filter (is_unfilled kw') rem = filter (is_unfilled kw) rem /\
              map (fun g => (g, value_of kw' g)) (filter (fun g => negb (is_unfilled kw g)) rem)
              = map (fun g => (g, value_of kw g)) (filter (fun g => negb (is_unfilled kw g)) rem)).
    { intros kw' Hm Hg. repeat split.
      - apply filter_ext_in. intros g Hin. unfold is_unfilled. rewrite Hm; auto.
      - apply filter_ext_in. intros g Hin. unfold is_unfilled. rewrite Hm; auto.
      - apply map_ext_in. intros g Hin. apply filter_In in Hin as [Hin _]. unfold value_of. rewrite Hm, Hg; auto. }
    unfold spec_step at 2. cbn [filter names map].
    destruct (kw_mem (pf_name f) kw) eqn:Em.
    + (* keyword given *)
      assert (Eu : is_unfilled kw f = false) by (unfold is_unfilled; rewrite Em; reflexivity).
      rewrite Eu. cbn [negb map].
      rewrite dict_set_fresh by (apply Fresh; left; reflexivity).
      rewrite IH; auto.
      * destruct (Efilt1 (kw_remove (pf_name f) kw)) as (E1 & E2 & E3).
        { intros g Hg. apply kw_mem_remove_other. apply Hother; auto. }
        { intros g Hg. apply kw_get_remove_other. apply Hother; auto. }
        rewrite E1, E2, E3. unfold value_of at 2. rewrite Em. rewrite <- app_assoc. reflexivity.
      * intros g Hg. rewrite map_app. cbn. intros Hin. apply in_app_or in Hin as [Hin|[Hin|[]]].
        -- eapply Fresh; [right; exact Hg | exact Hin].
        -- eapply Hother; eauto.
    + destruct (is_missing (pf_default f)) eqn:Ed.
      * (* missing *)
        assert (Eu : is_unfilled kw f = true) by (unfold is_unfilled; rewrite Em, Ed; reflexivity).
        rewrite Eu. cbn [negb map names]. rewrite (kw_remove_absent _ _ Em).
        rewrite IH; auto.
        -- rewrite <- app_assoc. reflexivity.
        -- intros g Hg. apply Fresh. right. exact Hg.
      * (* default *)
        assert (Eu : is_unfilled kw f = false) by (unfold is_unfilled; rewrite Em, Ed; reflexivity).
        rewrite Eu. cbn [negb map].
        rewrite dict_set_fresh by (apply Fresh; left; reflexivity). rewrite (kw_remove_absent _ _ Em).
        rewrite IH; auto.
        -- unfold value_of at 2. rewrite Em. rewrite <- app_assoc.
           (* kw_remove of an absent name is the identity *)
           reflexivity.
        -- intros g Hg. rewrite map_app. cbn. intros Hin. apply in_app_or in Hin as [Hin|[Hin|[]]].
           ++ eapply Fresh; [right; exact Hg | exact Hin].
           ++ eapply Hother; eauto.
Qed.

Lemma keys_combine (fs : list pfield) (args : list pval) :
  map fst (combine fs args) = firstn (length args) fs.
Proof.
  revert args. induction fs as [|f fs IH]; intros [|a args]; cbn; auto. rewrite IH. reflexivity.
Qed.

Lemma NoDup_app_r {A} (l1 l2 : list A) : NoDup (l1 ++ l2) -> NoDup l2.
Proof. induction l1; cbn; auto. intros H. inversion H; auto. Qed.

Lemma filter_filter {A} (p q : A -> bool) l : filter p (filter q l) = filter (fun x => q x && p x) l.
Proof. induction l as [|x l IH]; cbn; auto. destruct (q x); cbn; [destruct (p x); cbn; rewrite IH; auto | auto]. Qed.

Lemma NoDup_names_split n fs :
  NoDup (names fs) ->
  NoDup (names (skipn n fs)) /\
  (forall f, In f (skipn n fs) -> ~ In (pf_name f) (names (firstn n fs))).
Proof.
  intros ND. rewrite <- (firstn_skipn n fs) in ND. unfold names in *. rewrite map_app in ND. split.
  - eapply NoDup_app_r. exact ND.
  - intros f Hf Hin. revert ND Hin. generalize (map pf_name (firstn n fs)) as l1. intros l1.
    assert (Hin2 : In (pf_name f) (map pf_name (skipn n fs))) by (apply in_map; exact Hf).
    revert Hin2. generalize (map pf_name (skipn n fs)) as l2. intros l2 H2 ND H1.
    induction l1 as [|x l1 IH]; cbn in *; [contradiction|].
    inversion ND as [|? ? Hx ND']; subst. destruct H1 as [->|H1].
    + apply Hx. apply in_or_app. right. exact H2.
    + apply IH; auto.
Qed.

Definition spec_extract_closed (fields : list pfield) (args : list pval) (kwargs : pkwargs)
  : result (pdict * pkwargs) :=
  if Nat.eqb (length args) (length fields) then Ok (combine fields args, kwargs)
  else if Nat.ltb (length fields) (length args) then Err 0 []
  else
    let rem := skipn (length args) fields in
    let miss := names (filter (is_unfilled kwargs) rem) in
    if negb (is_nil miss) then Err 1 miss
    else Ok (combine fields args ++ map (fun f => (f, value_of kwargs f)) (filter (fun f => negb (is_unfilled kwargs f)) rem),
             fold_left (fun k f => kw_remove (pf_name f) k) rem kwargs).

Theorem spec_extract_is_closed fields args kwargs :
  NoDup (names fields) -> spec_extract fields args kwargs = spec_extract_closed fields args kwargs.
Proof.
  intros ND. unfold spec_extract, spec_extract_closed.
  destruct (Nat.eqb _ _); auto. destruct (Nat.ltb _ _); auto.
  destruct (NoDup_names_split (length args) fields ND) as [ND2 Fresh].
  assert (Fresh' : forall f, In f (skipn (length args) fields) ->
                   ~ In (pf_name f) (map (fun kv => pf_name (fst kv)) (combine fields args))).
  { intros f Hf. rewrite <- map_map, keys_combine. apply Fresh. exact Hf. }
  rewrite (fold_spec_step _ _ _ _ ND2 Fresh'). cbn [app]. reflexivity.
Qed.

(* all remaining fields filled <-> nothing missing *)
Lemma filter_all_filled kwargs rem :
  is_nil (names (filter (is_unfilled kwargs) rem)) = true ->
  filter (fun f => negb (is_unfilled kwargs f)) rem = rem.
Proof.
  induction rem as [|f rem IH]; cbn; auto. destruct (is_unfilled kwargs f); cbn; [discriminate|].
  intros H. rewrite IH; auto.
Qed.

(* (a)+(c): keys in DECLARATION order, value i = args[i] | kwargs[name] | default *)
Theorem spec_extract_ok_shape fields args kwargs d rest :
  NoDup (names fields) -> spec_extract fields args kwargs = Ok (d, rest) ->
  d = combine fields (args ++ map (value_of kwargs) (skipn (length args) fields)) /\ map fst d = fields.
Proof.
  intros ND. rewrite spec_extract_is_closed by exact ND. unfold spec_extract_closed.
  destruct (Nat.eqb (length args) (length fields)) eqn:E1.
  - apply Nat.eqb_eq in E1. intros H. inversion H; subst.
    rewrite skipn_all2 by lia. cbn. rewrite app_nil_r. split; auto.
    rewrite keys_combine, E1. apply firstn_all.
  - destruct (Nat.ltb (length fields) (length args)) eqn:E2; [discriminate|].
    apply Nat.eqb_neq in E1. apply Nat.ltb_ge in E2.
    destruct (negb (is_nil _)) eqn:E3; [discriminate|]. apply negb_false_iff in E3.
    intros H. inversion H; subst. rewrite (filter_all_filled _ _ E3).
    assert (Ed : combine fields args ++ map (fun f => (f, value_of kwargs f)) (skipn (length args) fields)
                 = combine fields (args ++ map (value_of kwargs) (skipn (length args) fields))).
    { clear -E2. revert args E2. induction fields as [|f fs IH]; intros [|a args] E; cbn in *; auto; try lia.
      - f_equal. specialize (IH [] (Nat.le_0_l _)). cbn in IH. destruct fs; exact IH.
      - f_equal. apply IH. lia. }
    split; [exact Ed|]. rewrite Ed.
    assert (El : length (args ++ map (value_of kwargs) (skipn (length args) fields)) = length fields).
    { rewrite app_length, map_length, skipn_length. lia. }
    rewrite keys_combine, El. apply firstn_all.
Qed.

(* (d) errors *)
Theorem spec_extract_too_many fields args kwargs :
  length fields < length args -> spec_extract fields args kwargs = Err 0 [].
Proof.
  intros H. unfold spec_extract. destruct (Nat.eqb _ _) eqn:E; [apply Nat.eqb_eq in E; lia|].
  destruct (Nat.ltb _ _) eqn:E2; auto. apply Nat.ltb_ge in E2. lia.
Qed.

Theorem spec_extract_missing fields args kwargs :
  NoDup (names fields) -> length args < length fields ->
  let miss := names (filter (is_unfilled kwargs) (skipn (length args) fields)) in
  miss <> [] -> spec_extract fields args kwargs = Err 1 miss.
Proof.
  intros ND H miss Hm. rewrite spec_extract_is_closed by exact ND. unfold spec_extract_closed.
  destruct (Nat.eqb _ _) eqn:E; [apply Nat.eqb_eq in E; lia|].
  destruct (Nat.ltb _ _) eqn:E2; [apply Nat.ltb_lt in E2; lia|].
  fold miss. destruct miss; [congruence|reflexivity].
Qed.

(* (e) leftover kwargs = kwargs minus the names of the fields that were not given positionally *)
Lemma kw_remove_filter n kw :
  NoDup (map fst kw) -> kw_remove n kw = filter (fun kv => negb (String.eqb (fst kv) n)) kw.
Proof.
  induction kw as [|[k v] kw IH]; cbn; auto. intros ND. inversion ND as [|? ? Hk ND']; subst.
  destruct (String.eqb k n) eqn:E; cbn.
  - apply String.eqb_eq in E. subst. symmetry.
    clear IH ND. induction kw as [|[k2 v2] kw IH2]; cbn; auto.
    destruct (String.eqb k2 n) eqn:E2; cbn.
    + apply String.eqb_eq in E2. subst. exfalso. apply Hk. left. reflexivity.
    + f_equal. apply IH2. { intros Hin. apply Hk. right. exact Hin. } { inversion ND'; auto. }
  - rewrite IH; auto.
Qed.

Lemma NoDup_keys_filter (p : string * pval -> bool) kw : NoDup (map fst kw) -> NoDup (map fst (filter p kw)).
Proof.
  induction kw as [|[k v] kw IH]; cbn; auto. intros ND. inversion ND as [|? ? Hk ND']; subst.
  destruct (p (k, v)); cbn; auto. constructor; auto. intros Hin. apply Hk.
  apply in_map_iff in Hin as [[k' v'] [E Hin]]. cbn in E. subst. apply filter_In in Hin as [Hin _].
  apply in_map_iff. exists (k, v'). auto.
Qed.

Lemma fold_remove_minus rem : forall kw,
  NoDup (map fst kw) -> fold_left (fun k f => kw_remove (pf_name f) k) rem kw = kw_minus kw (names rem).
Proof.
  induction rem as [|f rem IH]; intros kw ND; cbn.
  - unfold kw_minus. clear ND. induction kw as [|x kw IHk]; [reflexivity|]. cbn [filter existsb negb names map].
    rewrite <- IHk at 1. reflexivity.
  - rewrite kw_remove_filter by exact ND. rewrite IH by (apply NoDup_keys_filter; exact ND).
    unfold kw_minus. rewrite filter_filter. apply filter_ext. intros [k v]. cbn.
    rewrite negb_orb. reflexivity.
Qed.

(* (b) the order in which the caller wrote the keywords is irrelevant *)
Lemma kw_mem_perm n kw kw' : Permutation kw kw' -> kw_mem n kw = kw_mem n kw'.
Proof.
  induction 1 as [| [k v] l l' P IH | [k1 v1] [k2 v2] l | l l' l'' P1 IH1 P2 IH2]; cbn; auto.
  - rewrite IH. reflexivity.
  - destruct (String.eqb k1 n), (String.eqb k2 n); reflexivity.
  - congruence.
Qed.

Lemma kw_get_perm n kw kw' : NoDup (map fst kw) -> Permutation kw kw' -> kw_get n kw = kw_get n kw'.
Proof.
  intros ND P. induction P as [| [k v] l l' P IH | [k1 v1] [k2 v2] l | l l' l'' P1 IH1 P2 IH2].
  - reflexivity.
  - cbn in *. inversion ND; subst. rewrite IH; auto.
  - cbn in *. inversion ND as [|? ? Hin ND']; subst.
    destruct (String.eqb k1 n) eqn:E1, (String.eqb k2 n) eqn:E2; auto.
    apply String.eqb_eq in E1, E2. subst. exfalso. apply Hin. left. reflexivity.
  - rewrite IH1 by exact ND. apply IH2.
    eapply Permutation_NoDup; [apply Permutation_map; exact P1 | exact ND].
Qed.

Lemma Permutation_filter {A} (p : A -> bool) l l' : Permutation l l' -> Permutation (filter p l) (filter p l').
Proof.
  induction 1; cbn; auto.
  - destruct (p x); auto.
  - destruct (p x), (p y); auto. apply perm_swap.
  - eapply perm_trans; eauto.
Qed.

Definition result_equiv (r r' : result (pdict * pkwargs)) : Prop :=
  match r, r' with
  | Ok (d, k), Ok (d', k') => d = d' /\ Permutation k k'
  | Err a l, Err a' l' => a = a' /\ l = l'
  | _, _ => False
  end.

Theorem spec_extract_kwargs_order fields args kw kw' :
  NoDup (names fields) -> NoDup (map fst kw) -> Permutation kw kw' ->
  result_equiv (spec_extract fields args kw) (spec_extract fields args kw').
Proof.
  intros NDf NDk P.
  assert (NDk' : NoDup (map fst kw')) by (eapply Permutation_NoDup; [apply Permutation_map; exact P | exact NDk]).
  rewrite !spec_extract_is_closed by exact NDf. unfold spec_extract_closed.
  destruct (Nat.eqb _ _); [cbn; auto|]. destruct (Nat.ltb _ _); [cbn; auto|].
  set (rem := skipn (length args) fields).
  assert (Eu : forall f, is_unfilled kw' f = is_unfilled kw f).
  { intros f. unfold is_unfilled. rewrite (kw_mem_perm _ _ _ P). reflexivity. }
  assert (Ev : forall f, value_of kw' f = value_of kw f).
  { intros f. unfold value_of. rewrite (kw_mem_perm _ _ _ P), (kw_get_perm _ _ _ NDk P). reflexivity. }
  rewrite (filter_ext _ _ Eu rem).
  rewrite (filter_ext (fun f => negb (is_unfilled kw' f)) (fun f => negb (is_unfilled kw f))) by (intros; rewrite Eu; auto).
  destruct (negb (is_nil _)); cbn; [auto|]. split.
  - f_equal. apply map_ext. intros f. rewrite Ev. reflexivity.
  - rewrite !fold_remove_minus by assumption. apply Permutation_filter. exact P.
Qed.

(* (e) *)
Theorem spec_extract_leftover fields args kwargs d rest :
  NoDup (names fields) -> NoDup (map fst kwargs) -> length args <> length fields ->
  spec_extract fields args kwargs = Ok (d, rest) ->
  rest = kw_minus kwargs (names (skipn (length args) fields)).
Proof.
  intros NDf NDk Hl. rewrite spec_extract_is_closed by exact NDf. unfold spec_extract_closed.
  destruct (Nat.eqb _ _) eqn:E; [apply Nat.eqb_eq in E; contradiction|].
  destruct (Nat.ltb _ _); [discriminate|]. destruct (negb _); [discriminate|].
  intros H. inversion H; subst. apply fold_remove_minus. exact NDk.
Qed.

(* ---- _get_arguments, new_method ---- *)
Definition spec_get_arguments (x : pinst) : list pval :=
  map (fun field => get_attr x (pf_name field)) (inst_fields x).

Definition spec_new (extract : list pfield -> list pval -> pkwargs -> result (pdict * pkwargs))
           (cls : list pfield) (args : list pval) (kwargs : pkwargs) (evaluate : bool) : result pinst :=
  match extract cls args kwargs with
  | Err a l => Err a l
  | Ok (fields_with_values, hints) =>
      let sv := map (fun '(field, value) => (field, safe_sympify field value)) (dict_items fields_with_values) in
      let sympy_args := map (fun '(field, value) => value) (filter (fun '(field, value) => is_sympify field) sv) in
      let expr := fold_left (fun expr '(field, value) => set_attr expr (pf_name field) value) sv
                            (expr_new cls sympy_args hints) in
      if evaluate then Ok (evaluated expr) else Ok expr
  end.

(* the instance that has exactly these field values *)
Definition mk_inst (cls : list pfield) (vals : list pval) : pinst :=
  {| i_cls := cls;
     i_args := map snd (filter (fun fv => pf_sym (fst fv)) (combine cls vals));
     i_hints := [];
     i_attrs := combine (names cls) vals;
     i_evaluated := false |}.

Lemma kw_get_combine ns : forall vals, NoDup ns -> length vals = length ns ->
  map (fun n => kw_get n (combine ns vals)) ns = vals.
Proof.
  induction ns as [|n ns IH]; intros [|v vals] ND Hl; cbn in *; try discriminate; auto.
  rewrite String.eqb_refl. f_equal. inversion ND as [|? ? Hn ND']; subst.
  transitivity (map (fun m => kw_get m (combine ns vals)) ns); [|apply IH; auto; lia].
  apply map_ext_in. intros m Hm.
  destruct (String.eqb n m) eqn:E; auto. apply String.eqb_eq in E. subst. contradiction.
Qed.

Lemma attr_set_fresh l n v : ~ In n (map fst l) -> attr_set l n v = l ++ [(n, v)].
Proof.
  induction l as [|[k w] l IH]; cbn; intros H; auto.
  destruct (String.eqb k n) eqn:E; [apply String.eqb_eq in E; subst; tauto|]. rewrite IH; auto.
Qed.

Lemma fold_set_attr fs : forall vals x,
  NoDup (names fs) -> length vals = length fs ->
  (forall f, In f fs -> ~ In (pf_name f) (map fst (i_attrs x))) ->
  fold_left (fun expr '(field, value) => set_attr expr (pf_name field) value) (combine fs vals) x =
  {| i_cls := i_cls x; i_args := i_args x; i_hints := i_hints x;
     i_attrs := i_attrs x ++ combine (names fs) vals; i_evaluated := i_evaluated x |}.
Proof.
  induction fs as [|f fs IH]; intros [|v vals] x ND Hl Fresh; cbn in *; try discriminate.
  - rewrite app_nil_r. destruct x; reflexivity.
  - inversion ND as [|? ? Hn ND']; subst. rewrite IH; auto.
    + cbn. rewrite attr_set_fresh by (apply Fresh; auto). rewrite <- app_assoc. reflexivity.
    + intros g Hg. cbn. rewrite attr_set_fresh by (apply Fresh; auto). rewrite map_app. cbn.
      intros Hin. apply in_app_or in Hin as [Hin|[Hin|[]]].
      * eapply Fresh; eauto.
      * apply Hn. unfold names. rewrite Hin. apply in_map. exact Hg.
Qed.

(* the C15 contract on the specification: constructing from an instance's own arguments rebuilds it *)
Theorem spec_rebuild_identity cls vals :
  NoDup (names cls) -> length vals = length cls ->
  Forall2 (fun f v => safe_sympify f v = v) cls vals ->
  spec_new spec_extract cls (spec_get_arguments (mk_inst cls vals)) [] false = Ok (mk_inst cls vals).
Proof.
  intros ND Hl Fix.
  assert (Eg : spec_get_arguments (mk_inst cls vals) = vals).
  { unfold spec_get_arguments, mk_inst, inst_fields, get_attr. cbn.
    transitivity (map (fun n => kw_get n (combine (names cls) vals)) (names cls)).
    - unfold names. rewrite map_map. reflexivity.
    - apply kw_get_combine; auto. unfold names. rewrite map_length. exact Hl. }
  rewrite Eg. unfold spec_new, spec_extract. rewrite Hl, Nat.eqb_refl. unfold dict_items.
  assert (Es : map (fun '(field, value) => (field, safe_sympify field value)) (combine cls vals) = combine cls vals).
  { clear -Fix. induction Fix as [|f v fs vs H _ IH]; cbn; auto. rewrite H, IH. reflexivity. }
  rewrite Es.
  assert (Ea : map (fun '(field, value) => value) (filter (fun '(field, value) => is_sympify field) (combine cls vals))
               = map snd (filter (fun fv => pf_sym (fst fv)) (combine cls vals))).
  { generalize (combine cls vals) as l. induction l as [|[f v] l IH]; cbn; auto.
    unfold is_sympify in *. destruct (pf_sym f); cbn; [f_equal|]; exact IH. }
  rewrite Ea. rewrite fold_set_attr; [reflexivity | exact ND | exact Hl | cbn; auto].
Qed.
