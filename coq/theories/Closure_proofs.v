(* Closure_proofs.v — soundness of the closure checker of Closure.v, for ALL models and ALL
   interpretations of heads/values. *)
From AV Require Import Closure.
From Coq Require Import Bool.
Open Scope string_scope.

Lemma syms_App h args :
  h <> HStr -> syms (App h args) = flat_map syms args.
Proof.
  intros Hh. destruct h; try congruence; cbn [syms];
    induction args as [|x xs IH]; cbn; try reflexivity; now rewrite IH.
Qed.

Lemma head_HStr_dec h : {h = HStr} + {h <> HStr}.
Proof. destruct h; try (right; discriminate). now left. Qed.

Lemma xrepl_App σ h args : h <> HStr -> xrepl σ (App h args) = App h (map (xrepl σ) args).
Proof. intros Hh; destruct h; try congruence; reflexivity. Qed.

Lemma gden_App V N F ρ h args :
  h <> HStr -> gden V N F ρ (App h args) = F h (map (gden V N F ρ) args).
Proof. intros Hh; destruct h; try congruence; reflexivity. Qed.

Lemma mem_In s l : mem s l = true <-> In s l.
Proof.
  unfold mem. rewrite existsb_exists. split.
  - intros [x [Hx E]]. apply String.eqb_eq in E. now subst.
  - intros H. exists s. split; [assumption|apply String.eqb_refl].
Qed.

Lemma assoc_None_notin {A} (l : list (string * A)) s :
  assoc l s = None <-> ~ In s (map fst l).
Proof.
  induction l as [|[k v] l IH]; cbn; [tauto|].
  destruct (String.eqb_spec k s) as [->|Hne].
  - split; [discriminate|]. intros H; exfalso; apply H; now left.
  - rewrite IH. split; intros H.
    + intros [E|E]; [congruence|tauto].
    + intros E; apply H; now right.
Qed.

Lemma assoc_Some_In {A} (l : list (string * A)) s v :
  assoc l s = Some v -> In (s, v) l.
Proof.
  induction l as [|[k w] l IH]; cbn; [discriminate|].
  destruct (String.eqb_spec k s) as [->|Hne].
  - intros E; inversion E; subst; now left.
  - intros E; right; auto.
Qed.

(* coincidence: the value depends on the symbols that occur, for every interpretation *)
Lemma gden_ext V N F ρ1 ρ2 : forall e,
  (forall s, In s (syms e) -> ρ1 s = ρ2 s) -> gden V N F ρ1 e = gden V N F ρ2 e.
Proof.
  induction e as [s|q|h args IH] using expr_ind'; intros H.
  - apply H; now left.
  - reflexivity.
  - destruct (head_HStr_dec h) as [->|Hh]; [reflexivity|].
    rewrite !gden_App by assumption. f_equal.
    rewrite syms_App in H by assumption.
    induction IH as [|x xs Hx _ IHxs]; cbn; [reflexivity|].
    f_equal.
    + apply Hx. intros s Hs. apply H. cbn. apply in_or_app; now left.
    + apply IHxs. intros s Hs. apply H. cbn. apply in_or_app; now right.
Qed.

(* substitution lemma for xreplace *)
Definition env_after {V} (N : Q -> V) (F : head -> list V -> V) (σ : list (string * expr))
  (ρ : string -> V) : string -> V :=
  fun s => match assoc σ s with Some t => gden V N F ρ t | None => ρ s end.

Lemma gden_xrepl V N F σ ρ : forall e,
  gden V N F ρ (xrepl σ e) = gden V N F (env_after N F σ ρ) e.
Proof.
  induction e as [s|q|h args IH] using expr_ind'.
  - cbn [xrepl]. unfold env_after. cbn [gden]. destruct (assoc σ s); reflexivity.
  - reflexivity.
  - destruct (head_HStr_dec h) as [->|Hh]; [reflexivity|].
    rewrite xrepl_App by assumption. rewrite !gden_App by assumption. f_equal.
    rewrite map_map. induction IH as [|x xs Hx _ IHxs]; cbn; [reflexivity|]. now f_equal.
Qed.

(* symbols of a replaced tree *)
Lemma syms_xrepl σ : forall e s, In s (syms (xrepl σ e)) ->
  (In s (syms e) /\ assoc σ s = None) \/
  (exists k t, In k (syms e) /\ assoc σ k = Some t /\ In s (syms t)).
Proof.
  induction e as [k|q|h args IH] using expr_ind'; intros s Hs.
  - cbn [xrepl] in Hs. destruct (assoc σ k) as [t|] eqn:E.
    + right. exists k, t. repeat split; try assumption. now left.
    + cbn in Hs. destruct Hs as [<-|[]]. left. split; [now left|assumption].
  - cbn in Hs. contradiction.
  - destruct (head_HStr_dec h) as [->|Hh]; [cbn in Hs; contradiction|].
    rewrite xrepl_App in Hs by assumption. rewrite syms_App in Hs by assumption.
    rewrite syms_App by assumption.
    induction IH as [|x xs Hx _ IHxs]; cbn in Hs |- *; [contradiction|].
    apply in_app_or in Hs as [Hs|Hs].
    + destruct (Hx s Hs) as [[H1 H2]|[k [t [H1 [H2 H3]]]]].
      * left. split; [apply in_or_app; now left|assumption].
      * right. exists k, t. repeat split; try assumption. apply in_or_app; now left.
    + destruct (IHxs Hs) as [[H1 H2]|[k [t [H1 [H2 H3]]]]].
      * left. split; [apply in_or_app; now right|assumption].
      * right. exists k, t. repeat split; try assumption. apply in_or_app; now right.
Qed.

Lemma syms_xrepl_keeps σ : forall e s, In s (syms e) -> assoc σ s = None -> In s (syms (xrepl σ e)).
Proof.
  induction e as [k|q|h args IH] using expr_ind'; intros s Hs Hn.
  - cbn in Hs. destruct Hs as [<-|[]]. cbn [xrepl]. rewrite Hn. now left.
  - contradiction.
  - destruct (head_HStr_dec h) as [->|Hh]; [cbn in Hs; contradiction|].
    rewrite xrepl_App by assumption. rewrite syms_App in * by assumption.
    induction IH as [|x xs Hx _ IHxs]; cbn in Hs |- *; [contradiction|].
    apply in_app_or in Hs as [Hs|Hs]; apply in_or_app; [left|right]; auto.
Qed.

(* ---------------- soundness of the checker ---------------- *)
Section Sound.
  Variable m : model.
  Hypothesis OK : closure_ok m = true.

  Let ok1 : forallb (sym_ok m) (syms (expression m)) = true.
  Proof. unfold closure_ok in OK. apply andb_true_iff in OK as [H _]. now apply andb_true_iff in H as [H _]. Qed.
  Let ok2 : forallb (amp_ok m) (syms (unfolded m)) = true.
  Proof. unfold closure_ok in OK. apply andb_true_iff in OK as [H _]. now apply andb_true_iff in H as [_ H]. Qed.
  Let ok3 : forallb (kin_ok m) (kinvars m) = true.
  Proof. unfold closure_ok in OK. now apply andb_true_iff in OK as [_ H]. Qed.

  Lemma closure_param_xor_kinvar s : In s (syms (expression m)) ->
    (In s (params m) /\ ~ In s (map fst (kinvars m))) \/
    (In s (map fst (kinvars m)) /\ ~ In s (params m)).
  Proof.
    intros Hs. pose proof (proj1 (forallb_forall _ _) ok1 s Hs) as H.
    unfold sym_ok in H.
    destruct (mem s (params m)) eqn:Ep, (mem s (map fst (kinvars m))) eqn:Ek; cbn in H; try discriminate.
    - left. split; [now apply mem_In|]. intros C. apply mem_In in C. congruence.
    - right. split; [now apply mem_In|]. intros C. apply mem_In in C. congruence.
  Qed.

  Lemma closure_amplitudes_defined s : In s (syms (unfolded m)) -> is_amp s = true ->
    exists t, assoc (amps m) s = Some t.
  Proof.
    intros Hs Ha. pose proof (proj1 (forallb_forall _ _) ok2 s Hs) as H.
    unfold amp_ok in H. rewrite Ha in H. cbn in H. apply mem_In in H.
    destruct (assoc (amps m) s) eqn:E; [eauto|]. apply assoc_None_notin in E. contradiction.
  Qed.

  Lemma closure_kinvars_from_momenta k e s : In (k, e) (kinvars m) -> In s (syms e) ->
    In s (params m) \/ In s (momenta m).
  Proof.
    intros Hk Hs. pose proof (proj1 (forallb_forall _ _) ok3 (k, e) Hk) as H.
    unfold kin_ok in H. cbn in H. pose proof (proj1 (forallb_forall _ _) H s Hs) as H'.
    apply orb_true_iff in H' as [H'|H']; apply mem_In in H'; tauto.
  Qed.

  (* "the model can be evaluated from four-momenta and parameter values alone" *)
  Lemma closure_evaluable V N F ρ1 ρ2 :
    (forall s, In s (params m) \/ In s (momenta m) -> ρ1 s = ρ2 s) ->
    gden V N F ρ1 (full_expression m) = gden V N F ρ2 (full_expression m).
  Proof.
    intros Hagree. apply gden_ext. intros s Hs. unfold full_expression in Hs.
    apply syms_xrepl in Hs as [[H1 H2]|[k [t [H1 [H2 H3]]]]].
    - apply Hagree. left. destruct (closure_param_xor_kinvar s H1) as [[Hp _]|[Hk _]]; [assumption|].
      apply assoc_None_notin in H2. contradiction.
    - apply Hagree. apply assoc_Some_In in H2. eapply closure_kinvars_from_momenta; eassumption.
  Qed.
End Sound.
