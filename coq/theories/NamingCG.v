(* NamingCG.v — model of the Clebsch-Gordan expansion used by CanonicalAmplitudeBuilder (C03).

   Mirrors /repo/src/ampform/helicity/__init__.py formulate_isobar_cg_coefficients:
       CG(L, 0, S, d, J, d) * CG(s1, l1, s2, -l2, S, d),   d = l1 - l2
   with the children in TwoBodyDecay order.  All spins / projections are integers in units of 1/2.
   [cg_args] is what the correspondence run compares with the arguments of the two CG objects the
   implementation returns; [cgprod] is the same thing with an uninterpreted CG function.
   A canonical chain amplitude is C_{LS...} * prod_nodes cgprod * (Wigner D's); the helicity
   coefficient it induces for one helicity assignment is the sum over the LS alternatives.
   No proofs in this file. *)
From Coq Require Import ZArith List Reals.
From Coquelicot Require Import Complex.
Import ListNotations.

Record cgnode := mkCG {
  cg_J : Z;     (* 2 * parent spin *)
  cg_s1 : Z; cg_l1 : Z;      (* 2 * spin, 2 * helicity of TwoBodyDecay.children[0] *)
  cg_s2 : Z; cg_l2 : Z
}.

Open Scope Z_scope.
Definition cg_delta (n : cgnode) : Z := cg_l1 n - cg_l2 n.
Definition cg_args (n : cgnode) (L S : Z) : list Z * list Z :=
  ([L; 0; S; cg_delta n; cg_J n; cg_delta n],
   [cg_s1 n; cg_l1 n; cg_s2 n; - cg_l2 n; S; cg_delta n]).

(* both daughter helicities reversed *)
Definition flipn (n : cgnode) : cgnode :=
  mkCG (cg_J n) (cg_s1 n) (- cg_l1 n) (cg_s2 n) (- cg_l2 n).

(* (-1)^k *)
Definition sgn (k : Z) : R := if Z.even k then 1%R else (-1)%R.

(* parities (P parent, P1, P2), each +1 or -1 *)
Definition parities := (Z * Z * Z)%type.
(* eta = P P1 P2 (-1)^(J - s1 - s2)  (spins in units of 1/2, hence the division) *)
Definition eta_formula (n : cgnode) (par : parities) : R :=
  let '(P, P1, P2) := par in
  (IZR P * IZR P1 * IZR P2 * sgn ((cg_J n - cg_s1 n - cg_s2 n) / 2))%R.

Section WithCG.
  Variable CG : Z -> Z -> Z -> Z -> Z -> Z -> R.     (* sympy.physics.quantum.cg.CG(...).doit() *)

  Definition cgprod (n : cgnode) (L S : Z) : R :=
    (CG L 0 S (cg_delta n) (cg_J n) (cg_delta n)
     * CG (cg_s1 n) (cg_l1 n) (cg_s2 n) (- cg_l2 n) S (cg_delta n))%R.

  (* one node: sum over the LS alternatives with complex coefficients *)
  Definition node_amp (n : cgnode) (terms : list (C * (Z * Z))) : C :=
    fold_right (fun t acc => Cplus (Cmult (fst t) (RtoC (cgprod n (fst (snd t)) (snd (snd t))))) acc)
               (RtoC 0) terms.

  (* a chain: product over the nodes, one (L,S) per node *)
  Fixpoint cgchain (ns : list cgnode) (ls : list (Z * Z)) : R :=
    match ns, ls with
    | n :: ns', (L, S0) :: ls' => (cgprod n L S0 * cgchain ns' ls')%R
    | _, _ => 1%R
    end.
  Definition chain_amp (ns : list cgnode) (terms : list (C * list (Z * Z))) : C :=
    fold_right (fun t acc => Cplus (Cmult (fst t) (RtoC (cgchain ns (snd t)))) acc) (RtoC 0) terms.
End WithCG.

(* reverse the daughter helicities at the nodes flagged in F *)
Fixpoint flip_nodes (F : list bool) (ns : list cgnode) : list cgnode :=
  match F, ns with
  | b :: F', n :: ns' => (if b then flipn n else n) :: flip_nodes F' ns'
  | _, _ => ns
  end.
Fixpoint eta_prod (F : list bool) (ns : list cgnode) (pars : list parities) : R :=
  match F, ns, pars with
  | b :: F', n :: ns', p :: pars' =>
      ((if b then eta_formula n p else 1) * eta_prod F' ns' pars')%R
  | _, _, _ => 1%R
  end.

(* an LS alternative that conserves parity at node n and is a well-formed coupling *)
Definition wf_ls (n : cgnode) (par : parities) (L S : Z) : Prop :=
  let '(P, P1, P2) := par in
  Z.even L = true /\ Z.even (L + S - cg_J n) = true /\ Z.even (cg_s1 n + cg_s2 n - S) = true
  /\ IZR P = (IZR P1 * IZR P2 * sgn (L / 2))%R.
Definition pm1par (par : parities) : Prop :=
  let '(P, P1, P2) := par in (P = 1 \/ P = -1) /\ (P1 = 1 \/ P1 = -1) /\ (P2 = 1 \/ P2 = -1).

Fixpoint wf_chain (F : list bool) (ns : list cgnode) (pars : list parities) (ls : list (Z * Z)) : Prop :=
  match F, ns, pars, ls with
  | b :: F', n :: ns', p :: pars', (L, S0) :: ls' =>
      (b = true -> wf_ls n p L S0 /\ pm1par p) /\ wf_chain F' ns' pars' ls'
  | [], _, _, _ => True
  | _ :: _, [], _, _ => True
  | _, _, _, _ => False
  end.

(* the reflection symmetry of Clebsch-Gordan coefficients (hypothesis about SymPy's CG) *)
Definition CG_reflection (CG : Z -> Z -> Z -> Z -> Z -> Z -> R) : Prop :=
  forall j1 m1 j2 m2 J M : Z,
    Z.even (j1 + j2 - J) = true ->
    CG j1 (- m1) j2 (- m2) J (- M) = (sgn ((j1 + j2 - J) / 2) * CG j1 m1 j2 m2 J M)%R.
