(* Rot.v — mathematics used by C04 (rotation invariance), independent of /repo.
   Part 1: cosine, sine and range of numpy's arctan2 as defined in DenR.
   Part 2: the algebraic core of rotation invariance in the helicity formalism over an abstract
           rotation group with abstract Wigner matrices (hypotheses of the Section, see TRUSTED of
           runners/C04.py; validated exactly against SymPy by bridge/search_C04.py). *)
From Coq Require Import Reals Lra Psatz.
From AV Require Import DenR.
Open Scope R_scope.

Lemma sqrt_1_sq_div x y : 0 < x -> sqrt (1 + (y / x)²) = sqrt (x^2 + y^2) / x.
Proof.
  intros Hx. unfold Rsqr.
  replace (1 + y / x * (y / x)) with ((x^2 + y^2) / (x^2)) by (field; lra).
  rewrite sqrt_div_alt by (apply pow_lt; lra). f_equal.
  replace (x^2) with (x*x) by ring. apply sqrt_square; lra.
Qed.

Lemma rho_pos x y : 0 < x^2 + y^2 -> 0 < sqrt (x^2 + y^2).
Proof. intros; apply sqrt_lt_R0; assumption. Qed.

Lemma cos_sin_atan_pos x y : 0 < x ->
  cos (atan (y / x)) = x / sqrt (x^2 + y^2) /\ sin (atan (y / x)) = y / sqrt (x^2 + y^2).
Proof.
  intros Hx. assert (Hr : 0 < sqrt (x^2 + y^2)) by (apply rho_pos; nra).
  rewrite cos_atan, sin_atan, sqrt_1_sq_div by assumption. split; field; lra.
Qed.

Lemma cos_sin_atan_neg x y : x < 0 ->
  cos (atan (y / x)) = - x / sqrt (x^2 + y^2) /\ sin (atan (y / x)) = - y / sqrt (x^2 + y^2).
Proof.
  intros Hx. assert (Hr : 0 < sqrt (x^2 + y^2)) by (apply rho_pos; nra).
  replace (y / x) with ((- y) / (- x)) by (field; lra).
  destruct (cos_sin_atan_pos (- x) (- y)) as [Hc Hs]; [lra|].
  replace ((- x)^2 + (- y)^2) with (x^2 + y^2) in * by ring. split; assumption.
Qed.

Theorem atan2_cos_sin y x : 0 < x^2 + y^2 ->
  cos (atan2 y x) = x / sqrt (x^2 + y^2) /\ sin (atan2 y x) = y / sqrt (x^2 + y^2).
Proof.
  intros H. assert (Hr : 0 < sqrt (x^2 + y^2)) by (apply rho_pos; assumption).
  unfold atan2.
  destruct (Rlt_dec 0 x) as [Hx|Hx].
  - apply cos_sin_atan_pos; assumption.
  - destruct (Rlt_dec x 0) as [Hx'|Hx'].
    + destruct (cos_sin_atan_neg x y Hx') as [Hc Hs].
      destruct (Rle_dec 0 y).
      * rewrite cos_plus, sin_plus, cos_PI, sin_PI, Hc, Hs. split; field; lra.
      * rewrite cos_minus, sin_minus, cos_PI, sin_PI, Hc, Hs. split; field; lra.
    + assert (x = 0) by lra. subst x.
      assert (Hy : 0 < y^2) by lra.
      destruct (Rlt_dec 0 y) as [Hy1|Hy1].
      * rewrite cos_PI2, sin_PI2. replace (0^2 + y^2) with (y*y) by ring.
        rewrite sqrt_square by lra. split; field; lra.
      * destruct (Rlt_dec y 0) as [Hy2|Hy2].
        -- replace (- PI / 2) with (- (PI / 2)) by field.
           rewrite cos_neg, sin_neg, cos_PI2, sin_PI2.
           replace (0^2 + y^2) with ((-y)*(-y)) by ring.
           rewrite sqrt_square by lra. split; field; lra.
        -- assert (y = 0) by lra. subst y. lra.
Qed.

Theorem atan2_range y x : - PI < atan2 y x <= PI.
Proof.
  unfold atan2. pose proof PI_RGT_0 as HP.
  destruct (Rlt_dec 0 x) as [Hx|Hx].
  - pose proof (atan_bound (y / x)). lra.
  - destruct (Rlt_dec x 0) as [Hx'|Hx'].
    + destruct (Rle_dec 0 y) as [Hy|Hy].
      * assert (y / x <= 0).
        { unfold Rdiv. replace (y * / x) with (- (y * / (- x))) by (field; lra).
          assert (0 <= y * / - x); [|lra]. apply Rmult_le_pos; [lra|]. left. apply Rinv_0_lt_compat. lra. }
        assert (atan (y / x) <= 0).
        { destruct H as [H|H]. left. rewrite <- atan_0. apply atan_increasing; assumption.
          rewrite H, atan_0. lra. }
        pose proof (atan_bound (y / x)). lra.
      * assert (0 < y / x).
        { unfold Rdiv. replace (y * / x) with ((- y) * / (- x)) by (field; lra).
          apply Rmult_lt_0_compat; [lra|]. apply Rinv_0_lt_compat. lra. }
        assert (0 < atan (y / x)) by (rewrite <- atan_0; apply atan_increasing; assumption).
        pose proof (atan_bound (y / x)). lra.
    + destruct (Rlt_dec 0 y); [lra|]. destruct (Rlt_dec y 0); lra.
Qed.

(* ===================================================================================== *)
(* Part 2 — the algebraic core of rotation invariance in the helicity formalism, abstractly.
   G: rotations; D j g: matrices over C indexed by a COMPLETE range [rng j]; every fact about
   SU(2) representation theory used below is a named Section hypothesis.                      *)
From Coquelicot Require Import Complex.
Open Scope C_scope.

Lemma Cconj_plus (a b : C) : Cconj (a + b) = Cconj a + Cconj b.
Proof. destruct a, b; unfold Cconj, Cplus; cbn [fst snd]; f_equal; ring. Qed.
Lemma Cconj_mult (a b : C) : Cconj (a * b) = Cconj a * Cconj b.
Proof. destruct a, b; unfold Cconj, Cmult; cbn [fst snd]; f_equal; ring. Qed.
Lemma Cconj_conj (a : C) : Cconj (Cconj a) = a.
Proof. destruct a; unfold Cconj; cbn [fst snd]; f_equal; ring. Qed.
Lemma Cconj_0 : Cconj 0 = 0.
Proof. unfold Cconj, RtoC; cbn [fst snd]; f_equal; ring. Qed.
Lemma Cconj_1 : Cconj 1 = 1.
Proof. unfold Cconj, RtoC; cbn [fst snd]; f_equal; ring. Qed.

Definition norm2 (z : C) : C := z * Cconj z.
Lemma norm2_real (z : C) : norm2 z = RtoC (Cmod z ^ 2).
Proof.
  destruct z as [a b]. unfold norm2, Cconj, Cmult, Cmod, RtoC; cbn [fst snd].
  rewrite pow2_sqrt by nra. f_equal; ring.
Qed.

Fixpoint csum {I : Type} (l : list I) (f : I -> C) : C :=
  match l with [] => 0 | k :: l' => f k + csum l' f end.

Section Sums.
  Context {I : Type}.
  Implicit Types (l : list I) (f g : I -> C).

  Lemma csum_ext l f g : (forall k, In k l -> f k = g k) -> csum l f = csum l g.
  Proof.
    induction l as [|a l IH]; intros H; cbn; [reflexivity|].
    rewrite H by (left; reflexivity). rewrite IH; [reflexivity|]. intros; apply H; right; assumption.
  Qed.
  Lemma csum_plus l f g : csum l (fun k => f k + g k) = csum l f + csum l g.
  Proof. induction l as [|a l IH]; cbn; [ring|]. rewrite IH. ring. Qed.
  Lemma csum_scal_l l c f : csum l (fun k => c * f k) = c * csum l f.
  Proof. induction l as [|a l IH]; cbn; [ring|]. rewrite IH. ring. Qed.
  Lemma csum_scal_r l c f : csum l (fun k => f k * c) = csum l f * c.
  Proof. induction l as [|a l IH]; cbn; [ring|]. rewrite IH. ring. Qed.
  Lemma csum_zero l : csum l (fun _ => 0) = 0.
  Proof. induction l as [|a l IH]; cbn; [reflexivity|]. rewrite IH. ring. Qed.
  Lemma csum_conj l f : Cconj (csum l f) = csum l (fun k => Cconj (f k)).
  Proof. induction l as [|a l IH]; cbn; [apply Cconj_0|]. rewrite Cconj_plus, IH. reflexivity. Qed.

  (* a sum with a single non-vanishing term *)
  Lemma csum_single l k f : NoDup l -> In k l -> (forall k', In k' l -> k' <> k -> f k' = 0) ->
    csum l f = f k.
  Proof.
    induction l as [|a l IH]; intros ND Hin Hz; [destruct Hin|].
    inversion ND as [|? ? Hna ND']; subst. cbn. destruct Hin as [->|Hin].
    - rewrite (csum_ext l f (fun _ => 0)), csum_zero; [ring|].
      intros k' Hk'. apply Hz; [right; assumption|]. intros ->. contradiction.
    - rewrite IH; try assumption.
      + rewrite Hz; [ring|left; reflexivity|]. intros ->. contradiction.
      + intros k' Hk' Hne. apply Hz; [right; assumption|assumption].
  Qed.
End Sums.

Lemma csum_swap {I K : Type} (l1 : list I) (l2 : list K) (f : I -> K -> C) :
  csum l1 (fun a => csum l2 (fun b => f a b)) = csum l2 (fun b => csum l1 (fun a => f a b)).
Proof.
  induction l1 as [|a l1 IH]; cbn.
  - rewrite csum_zero. reflexivity.
  - rewrite IH, <- csum_plus. reflexivity.
Qed.

Section Rep.
  Variable G : Type.                       (* rotations *)
  Variable gmul : G -> G -> G.
  Variable J : Type.                       (* spins *)
  Variable I : Type.                       (* spin projections / helicities *)
  Variable I_eq_dec : forall a b : I, {a = b} + {a <> b}.
  Variable rng : J -> list I.              (* the COMPLETE projection range of spin j *)
  Hypothesis rng_nodup : forall j, NoDup (rng j).
  Variable D : J -> G -> I -> I -> C.      (* Wigner D^j_{m m'}(g) *)

  Definition delta (a b : I) : C := if I_eq_dec a b then 1 else 0.

  (* --- the trusted representation theory (SymPy's Rotation.D), as hypotheses --- *)
  Hypothesis D_mul : forall j g h m m', In m (rng j) -> In m' (rng j) ->
    D j (gmul g h) m m' = csum (rng j) (fun k => D j g m k * D j h k m').
  Hypothesis D_unit : forall j g m m', In m (rng j) -> In m' (rng j) ->
    csum (rng j) (fun k => Cconj (D j g k m) * D j g k m') = delta m m'.

  Lemma csum_delta j k f : In k (rng j) -> csum (rng j) (fun k' => delta k k' * f k') = f k.
  Proof.
    intros Hk. rewrite (csum_single (rng j) k); [| apply rng_nodup | assumption |].
    - unfold delta. destruct (I_eq_dec k k); [ring|contradiction].
    - intros k' _ Hne. unfold delta. destruct (I_eq_dec k k'); [subst; contradiction|ring].
  Qed.

  (* unitary mixing over the complete range preserves the sum of squared moduli *)
  Theorem unitary_mix_norm j g (v : I -> C) :
    csum (rng j) (fun M => norm2 (csum (rng j) (fun k => Cconj (D j g M k) * v k)))
    = csum (rng j) (fun k => norm2 (v k)).
  Proof.
    unfold norm2.
    transitivity (csum (rng j) (fun k => csum (rng j) (fun k' =>
                    (v k * Cconj (v k')) * csum (rng j) (fun M => Cconj (D j g M k) * D j g M k')))).
    - transitivity (csum (rng j) (fun M => csum (rng j) (fun k => csum (rng j) (fun k' =>
                      (v k * Cconj (v k')) * (Cconj (D j g M k) * D j g M k'))))).
      + apply csum_ext. intros M _. rewrite csum_conj, <- csum_scal_r.
        apply csum_ext. intros k _. rewrite <- csum_scal_l. apply csum_ext. intros k' _.
        rewrite Cconj_mult, Cconj_conj. ring.
      + rewrite csum_swap. apply csum_ext. intros k _. rewrite csum_swap.
        apply csum_ext. intros k' _. rewrite csum_scal_l. reflexivity.
    - apply csum_ext. intros k Hk.
      rewrite (csum_ext _ _ (fun k' => delta k k' * (v k * Cconj (v k')))).
      + rewrite csum_delta by assumption. reflexivity.
      + intros k' Hk'. rewrite D_unit by assumption. ring.
  Qed.

  (* ---------- one decay node ---------- *)
  (* helicity amplitude of a one-node decay in the frame g: A_M(g) = sum_l D*^j_{M l}(g) a_l *)
  Definition amp1 (j : J) (a : I -> C) (g : G) (M : I) : C :=
    csum (rng j) (fun l => Cconj (D j g M l) * a l).

  Theorem one_node_covariant j a h g M : In M (rng j) ->
    amp1 j a (gmul h g) M = csum (rng j) (fun k => Cconj (D j h M k) * amp1 j a g k).
  Proof.
    intros HM. unfold amp1.
    transitivity (csum (rng j) (fun l => csum (rng j) (fun k => Cconj (D j h M k) * (Cconj (D j g k l) * a l)))).
    - apply csum_ext. intros l Hl. rewrite D_mul by assumption. rewrite csum_conj, <- csum_scal_r.
      apply csum_ext. intros k _. rewrite Cconj_mult. ring.
    - rewrite csum_swap. apply csum_ext. intros k _. rewrite csum_scal_l. reflexivity.
  Qed.

  Theorem one_node_invariant j a h g :
    csum (rng j) (fun M => norm2 (amp1 j a (gmul h g) M)) = csum (rng j) (fun M => norm2 (amp1 j a g M)).
  Proof.
    rewrite <- (unitary_mix_norm j h (amp1 j a g)).
    apply csum_ext. intros M HM. rewrite one_node_covariant by assumption. reflexivity.
  Qed.

  (* ---------- several chains (topologies) ---------- *)
  (* An amplitude A e M of an event e is COVARIANT when a rotation h of the event acts on it by D*(h). *)
  Variable Ev : Type.
  Variable act : G -> Ev -> Ev.
  Definition covariant (j : J) (A : Ev -> I -> C) : Prop :=
    forall h e M, In M (rng j) -> A (act h e) M = csum (rng j) (fun k => Cconj (D j h M k) * A e k).

  Lemma covariant_invariant j A : covariant j A -> forall h e,
    csum (rng j) (fun M => norm2 (A (act h e) M)) = csum (rng j) (fun M => norm2 (A e M)).
  Proof.
    intros HA h e. rewrite <- (unitary_mix_norm j h (A e)).
    apply csum_ext. intros M HM. rewrite HA by assumption. reflexivity.
  Qed.

  Lemma covariant_sum {K : Type} j (chains : list K) (A : K -> Ev -> I -> C) :
    (forall c, In c chains -> covariant j (A c)) ->
    covariant j (fun e M => csum chains (fun c => A c e M)).
  Proof.
    intros HA h e M HM.
    transitivity (csum chains (fun c => csum (rng j) (fun k => Cconj (D j h M k) * A c e k))).
    - apply csum_ext. intros c Hc. apply HA; assumption.
    - rewrite csum_swap. apply csum_ext. intros k _. rewrite csum_scal_l. reflexivity.
  Qed.

  (* coherent sum over chains, incoherent sum over the initial projection M and over any further
     label nu (final-state helicities): invariant as soon as every chain is covariant *)
  Theorem covariant_chains_invariant {K N : Type} j (chains : list K) (nus : list N)
      (A : K -> N -> Ev -> I -> C) :
    (forall c nu, In c chains -> In nu nus -> covariant j (A c nu)) -> forall h e,
    csum nus (fun nu => csum (rng j) (fun M => norm2 (csum chains (fun c => A c nu (act h e) M))))
    = csum nus (fun nu => csum (rng j) (fun M => norm2 (csum chains (fun c => A c nu e M)))).
  Proof.
    intros HA h e. apply csum_ext. intros nu Hnu.
    apply (covariant_invariant j (fun e M => csum chains (fun c => A c nu e M))).
    apply covariant_sum. intros c Hc. apply HA; assumption.
  Qed.

  (* ---------- two-node cascade ---------- *)
  (* J -> (s -> ...) + spinless spectator.  h1: helicity frame of the isobar in the initial rest
     frame, h2: frame of the second decay relative to the isobar's helicity frame.  A rotation g of
     the event turns h1 into g.h1.r and h2 into rinv.h2 with r a rotation about z (frame covariance,
     proved for the code's frames in C04_lemmas for g about z, where r = 1).  The hypotheses on r
     are those of a z rotation: D(r) diagonal, with a character that does not depend on the spin. *)
  Variables Jt s : J.
  Variable lam : list I.                   (* helicities of the isobar that are summed over *)
  Hypothesis lam_Jt : forall l, In l lam -> In l (rng Jt).
  Hypothesis lam_s : forall l, In l lam -> In l (rng s).
  Variable a2 : I -> I -> C.               (* couplings x dynamics (rotation invariant) *)

  Definition amp2 (h1 h2 : G) (nu M : I) : C :=
    csum lam (fun l => Cconj (D Jt h1 M l) * Cconj (D s h2 l nu) * a2 l nu).

  Variables r rinv : G.
  Hypothesis r_diag : forall m m', In m (rng Jt) -> In m' (rng Jt) -> m <> m' -> D Jt r m m' = 0.
  Hypothesis rinv_diag : forall m m', In m (rng s) -> In m' (rng s) -> m <> m' -> D s rinv m m' = 0.
  Hypothesis r_char : forall l, In l lam -> D Jt r l l * D s rinv l l = 1.

  Theorem cascade_covariant g h1 h2 nu M : In M (rng Jt) -> In nu (rng s) ->
    amp2 (gmul g (gmul h1 r)) (gmul rinv h2) nu M
    = csum (rng Jt) (fun k => Cconj (D Jt g M k) * amp2 h1 h2 nu k).
  Proof.
    intros HM Hnu. unfold amp2.
    transitivity (csum lam (fun l => csum (rng Jt) (fun k =>
        Cconj (D Jt g M k) * (Cconj (D Jt h1 k l) * Cconj (D s h2 l nu) * a2 l nu)))).
    - apply csum_ext. intros l Hl. pose proof (lam_Jt l Hl) as HlJ. pose proof (lam_s l Hl) as Hls.
      rewrite (D_mul Jt g (gmul h1 r) M l) by assumption.
      rewrite (D_mul s rinv h2 l nu) by assumption.
      rewrite (csum_single (rng s) l (fun k => D s rinv l k * D s h2 k nu)); [| apply rng_nodup | assumption |].
      2:{ intros k' Hk' Hne. rewrite rinv_diag; [ring|assumption|assumption|]. intros E. apply Hne. symmetry. exact E. }
      rewrite csum_conj, <- !csum_scal_r. apply csum_ext. intros k Hk.
      rewrite (D_mul Jt h1 r k l) by assumption.
      rewrite (csum_single (rng Jt) l (fun k0 => D Jt h1 k k0 * D Jt r k0 l)); [| apply rng_nodup | assumption |].
      2:{ intros k' Hk' Hne. rewrite r_diag; [ring|assumption|assumption|assumption]. }
      rewrite !Cconj_mult.
      transitivity (Cconj (D Jt g M k) * (Cconj (D Jt h1 k l) * Cconj (D s h2 l nu) * a2 l nu)
                    * Cconj (D Jt r l l * D s rinv l l)); [rewrite Cconj_mult; ring|].
      rewrite r_char by assumption. rewrite Cconj_1. ring.
    - rewrite csum_swap. apply csum_ext. intros k _. rewrite csum_scal_l. reflexivity.
  Qed.

  Theorem cascade_invariant g h1 h2 (nus : list I) : (forall nu, In nu nus -> In nu (rng s)) ->
    csum nus (fun nu => csum (rng Jt) (fun M => norm2 (amp2 (gmul g (gmul h1 r)) (gmul rinv h2) nu M)))
    = csum nus (fun nu => csum (rng Jt) (fun M => norm2 (amp2 h1 h2 nu M))).
  Proof.
    intros Hnus. apply csum_ext. intros nu Hnu.
    rewrite <- (unitary_mix_norm Jt g (amp2 h1 h2 nu)).
    apply csum_ext. intros M HM. rewrite cascade_covariant; [reflexivity|assumption|apply Hnus; assumption].
  Qed.
End Rep.
