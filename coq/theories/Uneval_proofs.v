(* Uneval_proofs.v — generic theorems about the model in Uneval.v, for every well-formed table. *)
From Coq Require Import String List ZArith QArith Bool Arith Lia.
From AV Require Import Uneval.
Import ListNotations.
Open Scope string_scope.

(* ---------- induction principle ---------- *)
Section ExprInd.
  Variable P : expr -> Prop.
  Hypothesis HS : forall s, P (Sym s).
  Hypothesis HN : forall q, P (Num q).
  Hypothesis HA : forall h args, Forall P args -> P (App h args).
  Hypothesis HU : forall c args attrs, Forall P args -> P (Unev c args attrs).
  Fixpoint expr_ind' (e : expr) : P e :=
    match e with
    | Sym s => HS s
    | Num q => HN q
    | App h args =>
        HA h args ((fix go (l : list expr) : Forall P l :=
                      match l with [] => Forall_nil _ | x :: l' => Forall_cons _ (expr_ind' x) (go l') end) args)
    | Unev c args attrs =>
        HU c args attrs ((fix go (l : list expr) : Forall P l :=
                      match l with [] => Forall_nil _ | x :: l' => Forall_cons _ (expr_ind' x) (go l') end) args)
    end.
End ExprInd.

Lemma map_id_Forall {A} (f : A -> A) l : Forall (fun x => f x = x) l -> map f l = l.
Proof. induction 1; cbn; congruence. Qed.

Lemma map_ext_Forall {A B} (f g : A -> B) l : Forall (fun x => f x = g x) l -> map f l = map g l.
Proof. induction 1; cbn; congruence. Qed.

Lemma forallb_Forall {A} (p : A -> bool) l : forallb p l = true <-> Forall (fun x => p x = true) l.
Proof.
  induction l; cbn; split; intro H; auto.
  - apply andb_true_iff in H as [H1 H2]. constructor; auto. apply IHl; auto.
  - inversion H; subst. apply andb_true_iff; split; auto. apply IHl; auto.
Qed.

(* ---------- decidable equalities ---------- *)
Lemma Q_eqb_eq p q : Q_eqb p q = true <-> p = q.
Proof.
  unfold Q_eqb. destruct p as [a b], q as [c d]; cbn. rewrite andb_true_iff, Z.eqb_eq, Pos.eqb_eq.
  split; [intros [-> ->]; reflexivity | intros H; inversion H; auto].
Qed.

Lemma attr_eqb_eq a b : attr_eqb a b = true <-> a = b.
Proof.
  destruct a, b; cbn; try (split; [discriminate | discriminate]); try tauto;
    rewrite String.eqb_eq; (split; [intros ->; reflexivity | intros H; inversion H; reflexivity]).
Qed.

Lemma cattr_eqb_eq a b : cattr_eqb a b = true <-> a = b.
Proof.
  destruct a, b; cbn; try (split; discriminate);
    rewrite String.eqb_eq; (split; [intros ->; reflexivity | intros H; inversion H; reflexivity]).
Qed.

Lemma list_eqb_eq {A} (eqb : A -> A -> bool) :
  (forall a b, eqb a b = true <-> a = b) -> forall xs ys, list_eqb eqb xs ys = true <-> xs = ys.
Proof.
  intros He. induction xs as [|x xs IH]; intros [|y ys]; cbn; try (split; [discriminate|discriminate]); try tauto.
  rewrite andb_true_iff, He, IH. split; [intros [-> ->]; reflexivity | intros H; inversion H; auto].
Qed.

Lemma go_eqb_eq (f : expr -> expr -> bool) xs :
  Forall (fun x => forall y, f x y = true <-> x = y) xs ->
  forall ys,
    (fix go (xs ys : list expr) {struct xs} : bool :=
       match xs, ys with
       | [], [] => true
       | x :: xs', y :: ys' => f x y && go xs' ys'
       | _, _ => false
       end) xs ys = true <-> xs = ys.
Proof.
  induction 1 as [|x xs Hx _ IH]; intros [|y ys]; try (split; [discriminate|discriminate]); try tauto.
  rewrite andb_true_iff, Hx, IH. split; [intros [-> ->]; reflexivity | intros E; inversion E; auto].
Qed.

Lemma expr_eqb_eq a : forall b, expr_eqb a b = true <-> a = b.
Proof.
  induction a as [s|q|h args IH|c args attrs IH] using expr_ind'; intros [t|p|k ys|d ys bts]; cbn [expr_eqb];
    try (split; [discriminate|discriminate]).
  - rewrite String.eqb_eq. split; [intros ->; auto | intros E; inversion E; auto].
  - rewrite Q_eqb_eq. split; [intros ->; auto | intros E; inversion E; auto].
  - rewrite andb_true_iff, String.eqb_eq, (go_eqb_eq expr_eqb args IH).
    split; [intros [-> ->]; auto | intros E; inversion E; auto].
  - rewrite !andb_true_iff, String.eqb_eq, (go_eqb_eq expr_eqb args IH), (list_eqb_eq attr_eqb attr_eqb_eq).
    split; [intros [[-> ->] ->]; auto | intros E; inversion E; auto].
Qed.

Lemma expr_eqb_refl a : expr_eqb a a = true.
Proof. apply expr_eqb_eq; reflexivity. Qed.

(* ---------- new / get_arguments ---------- *)
Lemma fill_full fs : forall vs, length vs = length fs -> fill fs vs = Some vs.
Proof.
  induction fs as [|f fs IH]; intros [|v vs] H; cbn in *; try discriminate; auto.
  rewrite IH by lia. reflexivity.
Qed.

Lemma interleave_length fs : forall es ats,
  length es = length (filter fsym fs) ->
  length ats = length (filter (fun f => negb (fsym f)) fs) ->
  length (interleave fs es ats) = length fs.
Proof.
  induction fs as [|f fs IH]; intros es ats He Ha; cbn in *; auto.
  destruct (fsym f); cbn in *.
  - destruct es; cbn in *; [discriminate|]. rewrite IH; auto.
  - destruct ats; cbn in *; [discriminate|]. rewrite IH; auto.
Qed.

Lemma split_interleave fs : forall es ats,
  length es = length (filter fsym fs) ->
  length ats = length (filter (fun f => negb (fsym f)) fs) ->
  split fs (interleave fs es ats) = Some (es, ats).
Proof.
  induction fs as [|f fs IH]; intros es ats He Ha; cbn in *.
  - destruct es, ats; cbn in *; try discriminate; reflexivity.
  - destruct (fsym f) eqn:Ef; cbn in *.
    + destruct es as [|e es]; cbn in *; [discriminate|]. rewrite IH by lia. reflexivity.
    + destruct ats as [|a ats]; cbn in *; [discriminate|]. rewrite IH by lia. reflexivity.
Qed.

(* constructor idempotence on normalised arguments: cls( *get_arguments(x)) = x *)
Lemma new_interleave T c ci es ats :
  lookup T c = Some ci -> length es = nsym ci -> length ats = nattr ci ->
  new T c (interleave (cfields ci) es ats) = Unev c es ats.
Proof.
  intros L He Ha. unfold new. rewrite L.
  rewrite fill_full by (apply interleave_length; assumption).
  rewrite split_interleave by assumption. reflexivity.
Qed.

Lemma interleave_all_sympy fs es :
  forallb fsym fs = true -> length es = length fs -> interleave fs es [] = map VE es.
Proof.
  revert es. induction fs as [|f fs IH]; intros [|e es] Hs Hl; cbn in *; try discriminate; auto.
  apply andb_true_iff in Hs as [-> Hs]. rewrite IH; auto.
Qed.

Lemma filter_all {A} (p : A -> bool) l : forallb p l = true -> filter p l = l.
Proof. induction l; cbn; auto. intros H. apply andb_true_iff in H as [-> H]. rewrite IHl; auto. Qed.

Lemma filter_none {A} (p : A -> bool) l : forallb p l = true -> filter (fun x => negb (p x)) l = [].
Proof. induction l; cbn; auto. intros H. apply andb_true_iff in H as [-> H]. cbn. auto. Qed.

(* ---------- C15: rebuild (unpickling) is the identity for the shallow field getter ---------- *)
Theorem rebuild_shallow_id T e : wfi T e = true -> rebuild T Shallow e = e.
Proof.
  induction e as [s|q|h args IH|c args attrs IH] using expr_ind'; cbn; intros W; auto.
  - f_equal. apply map_id_Forall. apply forallb_Forall in W.
    rewrite Forall_forall in *. intros x Hx. apply IH; auto.
  - destruct (lookup T c) as [ci|] eqn:L; [|discriminate].
    apply andb_true_iff in W as [W W3]. apply andb_true_iff in W as [W1 W2].
    apply Nat.eqb_eq in W1, W2.
    assert (E : map (rebuild T Shallow) args = args).
    { apply map_id_Forall. apply forallb_Forall in W3. rewrite Forall_forall in *. intros x Hx. apply IH; auto. }
    rewrite E. apply new_interleave; auto.
Qed.

(* ---------- C14 item 4: func( *args) reproduces an instance whose fields are all SymPy ---------- *)
Theorem func_args_id T c ci args attrs :
  lookup T c = Some ci -> all_sympy ci = true -> wfi T (Unev c args attrs) = true ->
  func T (Unev c args attrs) (args_of (Unev c args attrs)) = Unev c args attrs.
Proof.
  intros L A W. cbn in *. rewrite L in W.
  apply andb_true_iff in W as [W _]. apply andb_true_iff in W as [W1 W2].
  apply Nat.eqb_eq in W1, W2. unfold all_sympy in A.
  unfold nattr in W2. rewrite (filter_none fsym _ A) in W2. destruct attrs; [|discriminate].
  unfold nsym in W1. rewrite (filter_all fsym _ A) in W1.
  rewrite <- (interleave_all_sympy (cfields ci) args A W1).
  apply new_interleave; auto.
  - unfold nsym. rewrite (filter_all fsym _ A). auto.
  - unfold nattr. rewrite (filter_none fsym _ A). auto.
Qed.

(* ---------- C14 item 3: equality and hash are functions of the content ---------- *)
Lemma go_eqb_content xs :
  Forall (fun x => forall y, eqb x y = true <-> content x = content y) xs ->
  forall ys,
    (fix go (xs ys : list expr) {struct xs} : bool :=
       match xs, ys with
       | [], [] => true
       | x :: xs', y :: ys' => eqb x y && go xs' ys'
       | _, _ => false
       end) xs ys = true <-> map content xs = map content ys.
Proof.
  induction 1 as [|x xs Hx _ IH]; intros [|y ys]; cbn [map]; try (split; [discriminate|discriminate]); try tauto.
  rewrite andb_true_iff, Hx, IH. split; [intros [-> ->]; reflexivity | intros E; inversion E; auto].
Qed.

Theorem eqb_iff_content a : forall b, eqb a b = true <-> content a = content b.
Proof.
  induction a as [s|q|h args IH|c args attrs IH] using expr_ind'; intros [t|p|k ys|d ys bts]; cbn [eqb content];
    try (split; [discriminate|discriminate]).
  - rewrite String.eqb_eq. split; [intros ->; auto | intros E; inversion E; auto].
  - rewrite Q_eqb_eq. split; [intros ->; auto | intros E; inversion E; auto].
  - rewrite andb_true_iff, String.eqb_eq, (go_eqb_content args IH).
    split; [intros [-> ->]; auto | intros E; inversion E; auto].
  - rewrite !andb_true_iff, String.eqb_eq, (go_eqb_content args IH), (list_eqb_eq cattr_eqb cattr_eqb_eq).
    split; [intros [[-> ->] ->]; auto | intros E; inversion E; auto].
Qed.

(* When the conversion is injective on the attribute values that occur, content equality is
   plain equality. *)
Definition conv_safe (a : attr) : Prop :=
  match a with
  | ANone | AObj _ => True
  | AStr s => False   (* strings may collide with None / class names / str() of unhashables *)
  | ACls _ => False
  | AUnh _ => False
  end.

(* a cheaper, more useful notion: all attribute values of both trees come from a set on which
   conv is injective *)
Fixpoint attrs_of (e : expr) : list attr :=
  match e with
  | Sym _ | Num _ => []
  | App _ args => flat_map attrs_of args
  | Unev _ args attrs => attrs ++ flat_map attrs_of args
  end.

Definition conv_inj_on (l : list attr) : Prop :=
  forall a b, In a l -> In b l -> conv a = conv b -> a = b.

Lemma map_conv_inj l1 l2 (S : list attr) :
  conv_inj_on S -> incl l1 S -> incl l2 S -> map conv l1 = map conv l2 -> l1 = l2.
Proof.
  intros Hi. revert l2. induction l1 as [|a l1 IH]; intros [|b l2] I1 I2 E; cbn in *; try discriminate; auto.
  inversion E. f_equal.
  - apply Hi; auto; [apply I1 | apply I2]; left; auto.
  - apply IH; auto; intros x Hx; [apply I1 | apply I2]; right; auto.
Qed.

Lemma content_inj_list (S : list attr) xs :
  Forall (fun a => forall b, incl (attrs_of a) S -> incl (attrs_of b) S -> content a = content b -> a = b) xs ->
  forall ys, incl (flat_map attrs_of xs) S -> incl (flat_map attrs_of ys) S ->
             map content xs = map content ys -> xs = ys.
Proof.
  induction 1 as [|x xs Hx _ IHl]; intros [|y ys] Ia Ib E; cbn in *; try discriminate; auto.
  injection E as E1 E2. f_equal.
  - apply Hx; auto; intros z Hz; [apply Ia | apply Ib]; apply in_or_app; left; auto.
  - apply IHl; auto; intros z Hz; [apply Ia | apply Ib]; apply in_or_app; right; auto.
Qed.

Theorem content_inj (S : list attr) : conv_inj_on S ->
  forall a b, incl (attrs_of a) S -> incl (attrs_of b) S -> content a = content b -> a = b.
Proof.
  intros Hi. induction a as [s|q|h args IH|c args attrs IH] using expr_ind';
    intros [t|p|k ys|d ys bts] Ia Ib E; cbn in E; try discriminate.
  - injection E as ->. reflexivity.
  - injection E as ->. reflexivity.
  - injection E as -> E2. f_equal. cbn in Ia, Ib. eapply content_inj_list; eauto.
  - injection E as -> E2 E3. cbn in Ia, Ib.
    assert (Eattrs : attrs = bts).
    { apply (map_conv_inj _ _ S Hi); auto; intros z Hz; [apply Ia | apply Ib]; apply in_or_app; left; auto. }
    subst bts. f_equal.
    eapply content_inj_list; eauto; intros z Hz; [apply Ia | apply Ib]; apply in_or_app; right; auto.
Qed.

(* ---------- substitution lemmas ---------- *)
Definition sub_val (s : smap) (v : val) : val :=
  match v with VE e => VE (sub s e) | VA a => VA a end.

Lemma assoc_rule_of s x : assoc_e (rule_of s) (Sym x) = assoc_s s x.
Proof.
  induction s as [|[k v] s IH]; [reflexivity|].
  change (assoc_e (rule_of ((k, v) :: s)) (Sym x))
    with (if String.eqb k x then Some v else assoc_e (rule_of s) (Sym x)).
  rewrite IH. reflexivity.
Qed.

Lemma assoc_rule_of_nonsym s e : (forall x, e <> Sym x) -> assoc_e (rule_of s) e = None.
Proof.
  intros H. induction s as [|[k v] s IH]; [reflexivity|].
  change (assoc_e (rule_of ((k, v) :: s)) e)
    with (if expr_eqb (Sym k) e then Some v else assoc_e (rule_of s) e).
  rewrite IH. destruct e; cbn; auto. exfalso; eapply H; eauto.
Qed.

Lemma existsb_snd_false {A B} (f : A -> B * bool) l :
  existsb snd (map f l) = false -> Forall (fun x => snd (f x) = false) l.
Proof.
  induction l; cbn; intros H; constructor; apply orb_false_iff in H as [H1 H2]; auto.
Qed.

Lemma no_attr_all_sympy ci : has_attr_fields ci = false -> all_sympy ci = true.
Proof.
  unfold has_attr_fields, all_sympy, nattr. rewrite negb_false_iff, Nat.eqb_eq.
  induction (cfields ci) as [|f fs IH]; cbn; auto.
  destruct (fsym f); cbn; [auto | discriminate].
Qed.

Lemma xr_attr_nil a : xr_attr [] a = (a, false).
Proof. reflexivity. Qed.

Lemma map_xr_attr_nil l : map fst (map (xr_attr []) l) = l /\ hits (map (xr_attr []) l) = false.
Proof.
  induction l as [|a l [IH1 IH2]]; [split; reflexivity|].
  cbn [map fst xr_attr assoc_a]. rewrite IH1. split; [reflexivity|].
  unfold hits in *. cbn. exact IH2.
Qed.

(* xreplace with a symbol-keyed rule is substitution at every depth (Shallow variant) *)
Lemma xr_spec T s e :
  wfi T e = true ->
  fst (xr T Shallow (rule_of s) [] e) = sub s e /\
  (snd (xr T Shallow (rule_of s) [] e) = false -> sub s e = e).
Proof.
  induction e as [x|q|h args IH|c args attrs IH] using expr_ind'; intros W.
  - cbn [xr]. rewrite assoc_rule_of. cbn [sub]. destruct (assoc_s s x); cbn [fst snd]; (split; [reflexivity|]).
    + discriminate.
    + reflexivity.
  - cbn [xr]. rewrite assoc_rule_of_nonsym by (intros; discriminate). cbn. split; auto.
  - cbn [xr]. rewrite assoc_rule_of_nonsym by (intros; discriminate).
    cbn in W. apply forallb_Forall in W.
    assert (IH' : Forall (fun y => fst (xr T Shallow (rule_of s) [] y) = sub s y /\
                                   (snd (xr T Shallow (rule_of s) [] y) = false -> sub s y = y)) args).
    { rewrite Forall_forall in *. intros y Hy. apply IH; auto. }
    assert (E : map fst (map (xr T Shallow (rule_of s) []) args) = map (sub s) args).
    { rewrite map_map. apply map_ext_Forall. eapply Forall_impl; [|exact IH']. cbn. intros ? [? ?]; auto. }
    cbn zeta. unfold hits. destruct (existsb _ _) eqn:Hh; cbn [fst snd sub].
    + rewrite E. split; [reflexivity | discriminate].
    + apply existsb_snd_false in Hh.
      assert (E2 : map (sub s) args = args).
      { apply map_id_Forall. rewrite Forall_forall in *. intros y Hy. apply IH'; auto. }
      rewrite E2. split; auto.
  - cbn [xr]. rewrite assoc_rule_of_nonsym by (intros; discriminate).
    cbn in W. destruct (lookup T c) as [ci|] eqn:L; [|discriminate].
    apply andb_true_iff in W as [W W3]. apply andb_true_iff in W as [W1 W2].
    apply Nat.eqb_eq in W1, W2. apply forallb_Forall in W3.
    assert (IH' : Forall (fun y => fst (xr T Shallow (rule_of s) [] y) = sub s y /\
                                   (snd (xr T Shallow (rule_of s) [] y) = false -> sub s y = y)) args).
    { rewrite Forall_forall in *. intros y Hy. apply IH; auto. }
    assert (E : map fst (map (xr T Shallow (rule_of s) []) args) = map (sub s) args).
    { rewrite map_map. apply map_ext_Forall. eapply Forall_impl; [|exact IH']. cbn. intros ? [? ?]; auto. }
    assert (NoHit : existsb snd (map (xr T Shallow (rule_of s) []) args) = false -> map (sub s) args = args).
    { intros Hh. apply existsb_snd_false in Hh. apply map_id_Forall.
      rewrite Forall_forall in *. intros y Hy. apply IH'; auto. }
    destruct (map_xr_attr_nil attrs) as [Ea Ha].
    destruct (has_attr_fields ci) eqn:HA; cbn zeta.
    + rewrite Ha, orb_false_r. unfold hits. destruct (existsb _ _) eqn:Hh; cbn [fst snd sub].
      * rewrite E, Ea. split; [|discriminate].
        apply new_interleave; auto. rewrite map_length; auto.
      * rewrite (NoHit eq_refl). split; auto.
    + unfold hits. destruct (existsb _ _) eqn:Hh; cbn [fst snd sub].
      * rewrite E. split; [|discriminate].
        pose proof (no_attr_all_sympy ci HA) as AS. unfold all_sympy in AS.
        assert (attrs = []) as ->.
        { unfold nattr in W2. rewrite (filter_none fsym _ AS) in W2. destruct attrs; [auto|discriminate]. }
        assert (Hl : length (map (sub s) args) = length (cfields ci)).
        { rewrite map_length, W1. unfold nsym. rewrite (filter_all fsym _ AS). auto. }
        rewrite <- (interleave_all_sympy (cfields ci) _ AS Hl).
        apply new_interleave; auto; try (rewrite map_length; auto); try (unfold nattr; rewrite (filter_none fsym _ AS); auto).
      * rewrite (NoHit eq_refl). split; auto.
Qed.

(* C14 item 2 *)
Theorem xreplace_shallow_is_substitution T s e :
  wfi T e = true -> xreplace T Shallow (rule_of s) [] e = sub s e.
Proof. intros W. apply (xr_spec T s e W). Qed.

(* ---------- closed expressions, defaults ---------- *)
Lemma closed_sub s e : has_free e = false -> sub s e = e.
Proof.
  induction e as [x|q|h args IH|c args attrs IH] using expr_ind'; cbn; intros H; try discriminate; auto.
  - f_equal. apply map_id_Forall. rewrite Forall_forall in *. intros y Hy. apply IH; auto.
    destruct (has_free y) eqn:Hf; auto. rewrite <- H. symmetry. apply existsb_exists. eauto.
  - f_equal. apply map_id_Forall. rewrite Forall_forall in *. intros y Hy. apply IH; auto.
    destruct (has_free y) eqn:Hf; auto. rewrite <- H. symmetry. apply existsb_exists. eauto.
Qed.

Definition dflt_closed (f : field) : Prop :=
  match fdef f with DE e => has_free e = false | _ => True end.

Lemma fill_sub s fs : Forall dflt_closed fs -> forall vs,
  fill fs (map (sub_val s) vs) = option_map (map (sub_val s)) (fill fs vs).
Proof.
  induction 1 as [|f fs Hf _ IH]; intros [|v vs]; cbn [map fill option_map]; auto.
  - unfold dflt_closed in Hf. specialize (IH []). cbn [map] in IH.
    destruct (fdef f) as [|e|a]; auto; destruct (fill fs []) as [l|]; cbn [option_map map sub_val] in *; auto;
      injection IH as IH; rewrite <- IH; auto.
    rewrite closed_sub; auto.
  - rewrite IH. destruct (fill fs vs); cbn; auto.
Qed.

Lemma split_sub s fs : forall vs,
  split fs (map (sub_val s) vs) =
  option_map (fun p => (map (sub s) (fst p), snd p)) (split fs vs).
Proof.
  induction fs as [|f fs IH]; intros [|v vs]; cbn; auto.
  rewrite IH. destruct (split fs vs) as [[es ats]|]; cbn; auto.
  destruct (fsym f), v; cbn; auto.
Qed.

Lemma sub_err s m : sub s (err m) = err m.
Proof. reflexivity. Qed.

Lemma new_sub T s c vs :
  (forall ci, lookup T c = Some ci -> Forall dflt_closed (cfields ci)) ->
  sub s (new T c vs) = new T c (map (sub_val s) vs).
Proof.
  intros H. unfold new. destruct (lookup T c) as [ci|] eqn:L; auto.
  rewrite (fill_sub s _ (H ci eq_refl)). destruct (fill (cfields ci) vs) as [full|]; cbn; auto.
  rewrite split_sub. destruct (split (cfields ci) full) as [[es ats]|]; cbn; auto.
Qed.

(* ---------- templates ---------- *)
Section TmplInd.
  Variable P : tmpl -> Prop.
  Hypothesis H1 : forall i, P (THole i).
  Hypothesis H2 : forall s, P (TSym s).
  Hypothesis H3 : forall q, P (TNum q).
  Hypothesis H4 : forall h ts, Forall P ts -> P (TApp h ts).
  Hypothesis H5 : forall c ts tas, Forall P ts -> P (TUnev c ts tas).
  Hypothesis H6 : forall j ts, Forall P ts -> P (TCall j ts).
  Fixpoint tmpl_ind' (t : tmpl) : P t :=
    let go := (fix go (l : list tmpl) : Forall P l :=
                 match l with [] => Forall_nil _ | x :: l' => Forall_cons _ (tmpl_ind' x) (go l') end) in
    match t with
    | THole i => H1 i | TSym s => H2 s | TNum q => H3 q
    | TApp h ts => H4 h ts (go ts)
    | TUnev c ts tas => H5 c ts tas (go ts)
    | TCall j ts => H6 j ts (go ts)
    end.
End TmplInd.

Definition table_dflt_closed (T : table) : Prop :=
  forall c ci, lookup T c = Some ci -> Forall dflt_closed (cfields ci).

Lemma in_flat_map_sub {A B} (f : A -> list B) l x y : In x l -> In y (f x) -> In y (flat_map f l).
Proof. intros. apply in_flat_map. eauto. Qed.

Lemma inst_sub T s args attrs t :
  table_dflt_closed T ->
  (forall x, In x (tsyms t) -> assoc_s s x = None) ->
  sub s (inst T args attrs t) = inst T (map (sub s) args) attrs t.
Proof.
  intros HD. induction t as [i|x|q|h ts IH|c ts tas IH|j ts IH] using tmpl_ind'; intros Hs; cbn [inst sub].
  - rewrite <- (sub_err s "hole"). symmetry. apply map_nth.
  - rewrite Hs; cbn; auto.
  - reflexivity.
  - f_equal. rewrite map_map. apply map_ext_Forall. rewrite Forall_forall in *.
    intros y Hy. apply IH; auto. intros z Hz. apply Hs. cbn. eapply in_flat_map_sub; eauto.
  - f_equal. rewrite map_map. apply map_ext_Forall. rewrite Forall_forall in *.
    intros y Hy. apply IH; auto. intros z Hz. apply Hs. cbn. eapply in_flat_map_sub; eauto.
  - assert (E : map (sub s) (map (inst T args attrs) ts) = map (inst T (map (sub s) args) attrs) ts).
    { rewrite map_map. apply map_ext_Forall. rewrite Forall_forall in *.
      intros y Hy. apply IH; auto. intros z Hz. apply Hs. cbn. eapply in_flat_map_sub; eauto. }
    rewrite <- E. generalize (map (inst T args attrs) ts) as es. intros es.
    unfold call_attr. destruct (nth j attrs ANone); cbn [sub map]; auto.
    destruct (lookup T q) eqn:L; cbn [sub]; auto.
    rewrite new_sub by (intros ci Hci; eapply HD; eauto).
    f_equal. rewrite !map_map. reflexivity.
Qed.

(* ---------- doit ---------- *)
Lemma doitF_S_App T n h args : doitF T (S n) (App h args) = App h (map (doitF T (S n)) args).
Proof. reflexivity. Qed.

Lemma doitF_S_Unev T n c args attrs :
  doitF T (S n) (Unev c args attrs) =
  match lookup T c with
  | None => Unev c args attrs
  | Some ci =>
      if cdoit ci then
        match pick (ctemplates ci) args with
        | Some t => doitF T n (inst T args attrs t)
        | None => err ("no-template:" ++ c)
        end
      else Unev c (map (doitF T (S n)) args) attrs
  end.
Proof. reflexivity. Qed.

Lemma stableF_S_App T s n h args : stableF T s (S n) (App h args) = forallb (stableF T s (S n)) args.
Proof. reflexivity. Qed.

Lemma stableF_S_Unev T s n c args attrs :
  stableF T s (S n) (Unev c args attrs) =
  match lookup T c with
  | None => true
  | Some ci =>
      if cdoit ci then
        forallb (fun gt => Bool.eqb (guard_holds (fst gt) args) (guard_holds (fst gt) (map (sub s) args)))
                (ctemplates ci)
        && match pick (ctemplates ci) args with
           | Some t => stableF T s n (inst T args attrs t)
           | None => true
           end
      else forallb (stableF T s (S n)) args
  end.
Proof. reflexivity. Qed.

Lemma unfolded_doit T n : forall e, unfolded T e = true -> doitF T n e = e.
Proof.
  destruct n as [|n]; [reflexivity|].
  induction e as [x|q|h args IH|c args attrs IH] using expr_ind'; intros U; auto.
  - rewrite doitF_S_App. f_equal. apply map_id_Forall. cbn in U. apply forallb_Forall in U.
    rewrite Forall_forall in *. intros y Hy. apply IH; auto.
  - rewrite doitF_S_Unev. cbn in U. destruct (lookup T c) as [ci|]; auto.
    apply andb_true_iff in U as [U1 U2]. apply negb_true_iff in U1. rewrite U1.
    f_equal. apply map_id_Forall. apply forallb_Forall in U2.
    rewrite Forall_forall in *. intros y Hy. apply IH; auto.
Qed.

Lemma pick_same ts args args' :
  forallb (fun gt => Bool.eqb (guard_holds (fst gt) args) (guard_holds (fst gt) args')) ts = true ->
  pick ts args' = pick ts args.
Proof.
  induction ts as [|[g t] ts IH]; cbn; auto. intros H. apply andb_true_iff in H as [H1 H2].
  apply eqb_prop in H1. rewrite <- H1. destruct (guard_holds g args); auto.
Qed.

Definition images_unfolded (T : table) (s : smap) : Prop :=
  forall x v, assoc_s s x = Some v -> unfolded T v = true.

Definition avoids_prop (T : table) (s : smap) : Prop :=
  forall c ci g t x, lookup T c = Some ci -> In (g, t) (ctemplates ci) -> In x (tsyms t) -> assoc_s s x = None.

Lemma pick_In ts args t : pick ts args = Some t -> exists g, In (g, t) ts.
Proof.
  induction ts as [|[g u] ts IH]; cbn; [discriminate|].
  destruct (guard_holds g args); intros H.
  - inversion H; subst. eauto.
  - destruct (IH H) as [g' ?]. eauto.
Qed.

(* core of C14 item 1, on plain substitution *)
Theorem doit_sub_commute T s :
  table_dflt_closed T -> avoids_prop T s -> images_unfolded T s ->
  forall n e, stableF T s n e = true -> doitF T n (sub s e) = sub s (doitF T n e).
Proof.
  intros HD HA HI. induction n as [|n IHn]; [reflexivity|].
  induction e as [x|q|h args IH|c args attrs IH] using expr_ind'; intros St.
  - cbn [sub]. destruct (assoc_s s x) as [v|] eqn:E.
    + rewrite (unfolded_doit T (S n) v (HI x v E)). cbn. rewrite E. reflexivity.
    + cbn. rewrite E. reflexivity.
  - reflexivity.
  - cbn [sub]. rewrite !doitF_S_App. cbn [sub]. f_equal. rewrite !map_map.
    rewrite stableF_S_App in St. apply forallb_Forall in St.
    apply map_ext_Forall. rewrite Forall_forall in *. intros y Hy. apply IH; auto.
  - cbn [sub]. rewrite !doitF_S_Unev. rewrite stableF_S_Unev in St.
    destruct (lookup T c) as [ci|] eqn:L; [|reflexivity].
    destruct (cdoit ci).
    + apply andb_true_iff in St as [S1 S2].
      rewrite (pick_same _ _ _ S1).
      destruct (pick (ctemplates ci) args) as [t|] eqn:P; [|reflexivity].
      rewrite <- IHn by exact S2. f_equal. symmetry. apply inst_sub; auto.
      destruct (pick_In _ _ _ P) as [g Hg]. intros x Hx. eapply HA; eauto.
    + cbn [sub]. f_equal. rewrite !map_map. apply forallb_Forall in St.
      apply map_ext_Forall. rewrite Forall_forall in *. intros y Hy. apply IH; auto.
Qed.

(* ---------- from the boolean well-formedness checks to the hypotheses above ---------- *)
Lemma lookup_In T c ci : lookup T c = Some ci -> In ci T /\ cname ci = c.
Proof.
  induction T as [|d T IH]; cbn; [discriminate|].
  destruct (String.eqb (cname d) c) eqn:E; intros H.
  - inversion H; subst. apply String.eqb_eq in E. auto.
  - destruct (IH H); auto.
Qed.

Lemma wf_table_dflt_closed T : wf_table T = true -> table_dflt_closed T.
Proof.
  unfold wf_table, table_dflt_closed. intros W c ci L.
  apply andb_true_iff in W as [_ W]. rewrite forallb_forall in W.
  destruct (lookup_In _ _ _ L) as [Hin _]. specialize (W ci Hin). unfold cinfo_ok in W.
  repeat (apply andb_true_iff in W as [W ?]).
  rewrite forallb_forall in W. apply Forall_forall. intros f Hf. specialize (W f Hf).
  unfold dflt_ok, dflt_closed in *. destruct (fdef f); auto. destruct (fsym f); [|discriminate].
  apply andb_true_iff in W as [W _]. unfold closed in W. apply negb_true_iff in W. exact W.
Qed.

Lemma assoc_s_notin s x : ~ In x (map fst s) -> assoc_s s x = None.
Proof.
  induction s as [|[k v] s IH]; cbn; auto. intros H.
  destruct (String.eqb k x) eqn:E; [apply String.eqb_eq in E; subst; tauto | apply IH; tauto].
Qed.

Lemma avoids_avoids_prop T s : avoids T s = true -> avoids_prop T s.
Proof.
  unfold avoids, disjointb, avoids_prop. intros H c ci g t x L Ht Hx.
  apply assoc_s_notin. intros Hin. rewrite forallb_forall in H. specialize (H x Hin).
  apply negb_true_iff in H. assert (existsb (String.eqb x) (table_syms T) = true); [|congruence].
  apply existsb_exists. exists x. split; [|apply String.eqb_refl].
  unfold table_syms. apply in_flat_map. exists ci. split; [apply (lookup_In _ _ _ L)|].
  apply in_flat_map. exists (g, t). auto.
Qed.

Definition images_ok (T : table) (s : smap) : bool :=
  forallb (fun kv => unfolded T (snd kv)) s.

Lemma images_ok_unfolded T s : images_ok T s = true -> images_unfolded T s.
Proof.
  unfold images_ok, images_unfolded. intros H x v.
  induction s as [|[k w] s IH]; cbn in *; [discriminate|].
  apply andb_true_iff in H as [H1 H2]. destruct (String.eqb k x); intros E; [inversion E; subst; auto | auto].
Qed.

(* C14 item 1.  Side conditions, all decidable and computed on every correspondence case:
   - [avoids]: the map does not replace a symbol that evaluate() creates itself (bound indices, Dummies);
   - [images_ok]: the images are already unfolded (otherwise the left side unfolds them and the
     right side does not — the two sides then differ by a further doit());
   - [stableF]: the map does not change which case of a value-inspecting evaluate() is taken
     (BlattWeisskopfSquared: L -> 2 turns the symbolic-L formula into the polynomial one);
   - [wfi (doitF ..)]: unfolding produced well-formed instances (not proved in general; checked). *)
Theorem xreplace_doit_commute_gen T s n e :
  wf_table T = true -> avoids T s = true -> images_ok T s = true ->
  wfi T e = true -> stableF T s n e = true ->
  doitF T n (xreplace T Shallow (rule_of s) [] e) = sub s (doitF T n e) /\
  (wfi T (doitF T n e) = true ->
   doitF T n (xreplace T Shallow (rule_of s) [] e) = xreplace T Shallow (rule_of s) [] (doitF T n e)).
Proof.
  intros W A I We St.
  assert (E : doitF T n (xreplace T Shallow (rule_of s) [] e) = sub s (doitF T n e)).
  { rewrite xreplace_shallow_is_substitution by exact We.
    apply doit_sub_commute; auto using wf_table_dflt_closed, avoids_avoids_prop, images_ok_unfolded. }
  split; [exact E|]. intros Wd. rewrite E. symmetry. apply xreplace_shallow_is_substitution; exact Wd.
Qed.

(* subs with a single (symbol, image) pair is the same substitution *)
Lemma sb_spec T x w e :
  wfi T e = true ->
  fst (sb T Shallow (Sym x) w e) = sub [(x, w)] e /\
  (snd (sb T Shallow (Sym x) w e) = false -> sub [(x, w)] e = e).
Proof.
  induction e as [y|q|h args IH|c args attrs IH] using expr_ind'; intros W.
  - cbn. rewrite String.eqb_sym. destruct (String.eqb x y); cbn; split; auto; discriminate.
  - cbn. split; auto.
  - cbn [sb expr_eqb]. cbn in W. apply forallb_Forall in W.
    assert (IH' : Forall (fun y => fst (sb T Shallow (Sym x) w y) = sub [(x, w)] y /\
                                   (snd (sb T Shallow (Sym x) w y) = false -> sub [(x, w)] y = y)) args).
    { rewrite Forall_forall in *. intros y Hy. apply IH; auto. }
    assert (E : map fst (map (sb T Shallow (Sym x) w) args) = map (sub [(x, w)]) args).
    { rewrite map_map. apply map_ext_Forall. eapply Forall_impl; [|exact IH']. cbn. intros ? [? ?]; auto. }
    cbn zeta. destruct (existsb _ _) eqn:Hh; cbn [fst snd sub].
    + rewrite E. split; [reflexivity | discriminate].
    + apply existsb_snd_false in Hh.
      assert (E2 : map (sub [(x, w)]) args = args).
      { apply map_id_Forall. rewrite Forall_forall in *. intros y Hy. apply IH'; auto. }
      rewrite E2. split; auto.
  - cbn [sb expr_eqb]. cbn in W. destruct (lookup T c) as [ci|] eqn:L; [|discriminate].
    apply andb_true_iff in W as [W W3]. apply andb_true_iff in W as [W1 W2].
    apply Nat.eqb_eq in W1, W2. apply forallb_Forall in W3.
    assert (IH' : Forall (fun y => fst (sb T Shallow (Sym x) w y) = sub [(x, w)] y /\
                                   (snd (sb T Shallow (Sym x) w y) = false -> sub [(x, w)] y = y)) args).
    { rewrite Forall_forall in *. intros y Hy. apply IH; auto. }
    assert (E : map fst (map (sb T Shallow (Sym x) w) args) = map (sub [(x, w)]) args).
    { rewrite map_map. apply map_ext_Forall. eapply Forall_impl; [|exact IH']. cbn. intros ? [? ?]; auto. }
    assert (NoHit : existsb snd (map (sb T Shallow (Sym x) w) args) = false -> map (sub [(x, w)]) args = args).
    { intros Hh. apply existsb_snd_false in Hh. apply map_id_Forall.
      rewrite Forall_forall in *. intros y Hy. apply IH'; auto. }
    destruct (has_attr_fields ci) eqn:HA; cbn zeta.
    + destruct (existsb _ _) eqn:Hh; cbn [fst snd sub].
      * rewrite E. split; [|discriminate]. apply new_interleave; auto. rewrite map_length; auto.
      * rewrite (NoHit eq_refl). split; auto.
    + destruct (existsb _ _) eqn:Hh; cbn [fst snd sub].
      * rewrite E. split; [|discriminate].
        pose proof (no_attr_all_sympy ci HA) as AS. unfold all_sympy in AS.
        assert (attrs = []) as ->.
        { unfold nattr in W2. rewrite (filter_none fsym _ AS) in W2. destruct attrs; [auto|discriminate]. }
        assert (Hl : length (map (sub [(x, w)]) args) = length (cfields ci)).
        { rewrite map_length, W1. unfold nsym. rewrite (filter_all fsym _ AS). auto. }
        rewrite <- (interleave_all_sympy (cfields ci) _ AS Hl).
        apply new_interleave; auto; try (rewrite map_length; auto); try (unfold nattr; rewrite (filter_none fsym _ AS); auto).
      * rewrite (NoHit eq_refl). split; auto.
Qed.

Theorem subs1_shallow_is_substitution T x w e :
  wfi T e = true -> subs1 T Shallow (Sym x) w e = sub [(x, w)] e.
Proof. intros W. apply (sb_spec T x w e W). Qed.

(* ---------- C15: a model rebuilt field-wise ---------- *)
Definition dict := list (expr * expr).
Definition rebuild_dict T v (d : dict) : dict :=
  map (fun kv => (rebuild T v (fst kv), rebuild T v (snd kv))) d.
Definition wf_dict T (d : dict) : bool := forallb (fun kv => wfi T (fst kv) && wfi T (snd kv)) d.

Record model := {
  m_reaction_info : string;                 (* opaque (qrules object; its pickling is qrules' business) *)
  m_intensity : expr;
  m_amplitudes : dict;
  m_parameter_defaults : dict;
  m_kinematic_variables : dict;
  m_components : list (string * expr) }.

Definition rebuild_model T v (m : model) : model :=
  {| m_reaction_info := m_reaction_info m;
     m_intensity := rebuild T v (m_intensity m);
     m_amplitudes := rebuild_dict T v (m_amplitudes m);
     m_parameter_defaults := rebuild_dict T v (m_parameter_defaults m);
     m_kinematic_variables := rebuild_dict T v (m_kinematic_variables m);
     m_components := map (fun kv => (fst kv, rebuild T v (snd kv))) (m_components m) |}.

Definition wf_model T (m : model) : bool :=
  wfi T (m_intensity m) && wf_dict T (m_amplitudes m) && wf_dict T (m_parameter_defaults m)
  && wf_dict T (m_kinematic_variables m) && forallb (fun kv => wfi T (snd kv)) (m_components m).

Lemma rebuild_dict_id T d : wf_dict T d = true -> rebuild_dict T Shallow d = d.
Proof.
  unfold wf_dict, rebuild_dict. intros W. apply map_id_Forall. apply forallb_Forall in W.
  eapply Forall_impl; [|exact W]. intros [k x] H. cbn in *. apply andb_true_iff in H as [H1 H2].
  rewrite !rebuild_shallow_id; auto.
Qed.

Theorem rebuild_model_id T m : wf_model T m = true -> rebuild_model T Shallow m = m.
Proof.
  unfold wf_model. intros W.
  apply andb_true_iff in W as [W H5]. apply andb_true_iff in W as [W H4].
  apply andb_true_iff in W as [W H3]. apply andb_true_iff in W as [H1 H2].
  destruct m; unfold rebuild_model;
    cbn [m_reaction_info m_intensity m_amplitudes m_parameter_defaults m_kinematic_variables m_components] in *.
  rewrite (rebuild_shallow_id _ _ H1), (rebuild_dict_id _ _ H2), (rebuild_dict_id _ _ H3), (rebuild_dict_id _ _ H4).
  f_equal. apply map_id_Forall. apply forallb_Forall in H5. eapply Forall_impl; [|exact H5].
  intros [k x] Hx. cbn in *. rewrite rebuild_shallow_id; auto.
Qed.
