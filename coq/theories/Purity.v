(* Purity.v — state-leakage model of HelicityAmplitudeBuilder.formulate (property C06).

   MODEL ONLY (no proofs; see Purity_proofs.v).  Mirrors, as of the current /repo:
     src/ampform/helicity/__init__.py   HelicityAmplitudeBuilder.{__init__,formulate},
                                        BuilderConfiguration, DynamicsSelector.assign,
                                        _HelicityModelIngredients, HelicityModel converters
     src/ampform/helicity/naming.py     flag setters -> _register_amplitude_coefficients
     src/ampform/helicity/align/*.py    define_symbols (dpd.py goes through the
                                        functools.cache of _formulate_aligned_amplitude)
     src/ampform/kinematics/__init__.py HelicityAdapter (a Python set of topologies)

   The model is about WHERE state lives and who can write it, not about what is computed:
   everything that is computed from (reaction, configuration) alone is a Section variable
   (a "pure piece").  Python objects that are shared between calls are explicit:
     - the process-global memo table maps a key to an ADDRESS,
     - the heap maps addresses to mutable dictionaries,
     - a builder owns its configuration, the derived naming table and its scratch dicts.
   Whether define_symbols hands out the memoised object itself, a copy, or something built
   afresh, whether formulate() resets the scratch and whether a naming setter re-registers
   the coefficient names are FIELDS OF A SKELETON that the harness observes on the running
   implementation (bridge/purity_C06.py) and writes to build/C06/Skel_C06.v. *)
From Coq Require Import List Bool Arith Lia.
Import ListNotations.
Set Implicit Arguments.

(* ------------------------------------------------------------------------------------ *)
(* Insertion-ordered dictionaries (Python dict): assoc lists, first match is the entry. *)
Section Dict.
  Variables K V : Type.
  Variable keqb : K -> K -> bool.
  Variable kltb : K -> K -> bool.   (* strict order used by the sorting converters *)

  Definition dict := list (K * V).

  Fixpoint dget (d : dict) (k : K) : option V :=
    match d with
    | [] => None
    | (k', v) :: r => if keqb k k' then Some v else dget r k
    end.

  (* d[k] = v : in place when the key exists (position kept), appended otherwise *)
  Fixpoint dset (d : dict) (k : K) (v : V) : dict :=
    match d with
    | [] => [(k, v)]
    | (k', v') :: r => if keqb k k' then (k', v) :: r else (k', v') :: dset r k v
    end.

  (* del d[k] *)
  Definition ddel (d : dict) (k : K) : dict :=
    filter (fun kv => negb (keqb k (fst kv))) d.

  (* d.update(d') : iterate d' in its order *)
  Definition dupdate (d d' : dict) : dict :=
    fold_left (fun acc kv => dset acc (fst kv) (snd kv)) d' d.

  (* value seen for k when a sequence of writes is replayed (last write wins);
     equals [dget] on a dictionary without duplicate keys *)
  Definition dlast (d : dict) (k : K) : option V := dget (rev d) k.

  (* OrderedDict([(k, m[k]) for k in sorted(m, key=...)]) — the converters of
     HelicityModel.  Modelled as insertion into a strictly sorted list w.r.t. [kltb], a
     strict TOTAL order on keys: the converters' sort key is (natural_sorting(name), name)
     since /repo b7082dd, hence injective on names (before that fix 'm_01' and 'm_1' tied
     and the tie was resolved by insertion order; bridge/purity_C06.py re-checks on every
     model that no two keys of one dictionary share a sort key). *)
  Fixpoint insert (k : K) (v : V) (l : dict) : dict :=
    match l with
    | [] => [(k, v)]
    | (k', v') :: r =>
        if keqb k k' then l
        else if kltb k k' then (k, v) :: l
        else (k', v') :: insert k v r
    end.

  Definition canon (d : dict) : dict :=
    fold_left (fun acc kv => insert (fst kv) (snd kv) acc) d [].

  Fixpoint ssorted (l : dict) : Prop :=
    match l with
    | [] => True
    | (k, _) :: r => (forall k' v', In (k', v') r -> kltb k k' = true) /\ ssorted r
    end.
End Dict.

(* sorted duplicate-free lists of naturals: normal form of Python sets of small ints *)
Fixpoint sins (x : nat) (l : list nat) : list nat :=
  match l with
  | [] => [x]
  | y :: r => if x =? y then l else if x <? y then x :: l else y :: sins x r
  end.
Definition nsort (l : list nat) : list nat := fold_right sins [] l.

(* sorted association list with replacement: normal form of DynamicsSelector choices *)
Fixpoint aset (k v : nat) (l : list (nat * nat)) : list (nat * nat) :=
  match l with
  | [] => [(k, v)]
  | (k', v') :: r =>
      if k =? k' then (k, v) :: r
      else if k <? k' then (k, v) :: l
      else (k', v') :: aset k v r
  end.

Definition same_members (l1 l2 : list nat) : bool :=
  forallb (fun x => existsb (Nat.eqb x) l2) l1 && forallb (fun x => existsb (Nat.eqb x) l1) l2.

(* ------------------------------------------------------------------------------------ *)
Inductive align := NoAlign | AxisAngle | DPD (ref : nat).
Definition align_eqb (a b : align) : bool :=
  match a, b with
  | NoAlign, NoAlign => true
  | AxisAngle, AxisAngle => true
  | DPD m, DPD n => m =? n
  | _, _ => false
  end.

Record flags := { f_parent : bool; f_child : bool; f_ls : bool }.

(* everything a user can set on a builder *)
Record config := {
  c_align : align;                 (* config.spin_alignment *)
  c_scalar : bool;                 (* config.scalar_initial_state_mass *)
  c_stable : option (list nat);    (* config.stable_final_state_ids (a set: sorted) *)
  c_helcoup : bool;                (* config.use_helicity_couplings *)
  c_flags : flags;                 (* naming.insert_*  *)
  c_dyn : list (nat * nat);        (* dynamics: decay node -> lineshape builder (sorted) *)
  c_topos : list nat               (* adapter.registered_topologies (a set: sorted) *)
}.

Inductive cfield :=
| FAlign (a : align) | FScalar (v : bool) | FStable (s : option (list nat)) | FHelCoup (v : bool).
Inductive nflag := NParent | NChild | NLs.

Inductive op :=
| NewBuilder (r : nat)
| SetConfig (b : nat) (f : cfield)
| SetNaming (b : nat) (f : nflag) (v : bool)
| Assign (b sel bld : nat)          (* dynamics.assign(particle name / Particle, builder) *)
| AssignDecay (b d bld : nat)       (* dynamics.assign(TwoBodyDecay / (transition, node_id), builder) *)
| RegisterTopo (b t : nat)
| Permutate (b : nat)
| Formulate (b : nat) (order : list nat).
   (* [order]: the order in which this call happens to iterate the adapter's Python set of
      topologies (hash-seed / insertion-history dependent).  Used when it enumerates the
      registered set, otherwise the sorted order is used. *)

(* what the implementation does, observed at run time *)
Inductive defmode :=
| Fresh        (* define_symbols builds a new dict on every call *)
| MemoCopy     (* it reads a memoised dict and returns a copy *)
| MemoAlias.   (* it returns the memoised dict itself *)

Record skeleton := {
  sk_none : defmode; sk_axis : defmode; sk_dpd : defmode;
  sk_resets : bool;        (* formulate() starts with ingredients.reset() *)
  sk_reregisters : bool    (* naming flag setters re-register the coefficient names *)
}.
Definition sk_define (sk : skeleton) (a : align) : defmode :=
  match a with NoAlign => sk_none sk | AxisAngle => sk_axis sk | DPD _ => sk_dpd sk end.
Definition is_alias (m : defmode) : bool := match m with MemoAlias => true | _ => false end.
(* [no_write_through_memo]: the object the angle loop writes into is never a memoised one *)
Definition no_write_through_memo (sk : skeleton) : bool :=
  negb (is_alias (sk_none sk)) && negb (is_alias (sk_axis sk)) && negb (is_alias (sk_dpd sk)).
Definition well_behaved (sk : skeleton) : bool :=
  no_write_through_memo sk && sk_resets sk && sk_reregisters sk.

Definition set_flag (f : flags) (n : nflag) (v : bool) : flags :=
  match n with
  | NParent => {| f_parent := v; f_child := f_child f; f_ls := f_ls f |}
  | NChild => {| f_parent := f_parent f; f_child := v; f_ls := f_ls f |}
  | NLs => {| f_parent := f_parent f; f_child := f_child f; f_ls := v |}
  end.

Definition set_field (c : config) (f : cfield) : config :=
  match f with
  | FAlign a => {| c_align := a; c_scalar := c_scalar c; c_stable := c_stable c;
                   c_helcoup := c_helcoup c; c_flags := c_flags c; c_dyn := c_dyn c;
                   c_topos := c_topos c |}
  | FScalar v => {| c_align := c_align c; c_scalar := v; c_stable := c_stable c;
                    c_helcoup := c_helcoup c; c_flags := c_flags c; c_dyn := c_dyn c;
                    c_topos := c_topos c |}
  | FStable s => {| c_align := c_align c; c_scalar := c_scalar c;
                    c_stable := option_map nsort s;
                    c_helcoup := c_helcoup c; c_flags := c_flags c; c_dyn := c_dyn c;
                    c_topos := c_topos c |}
  | FHelCoup v => {| c_align := c_align c; c_scalar := c_scalar c; c_stable := c_stable c;
                     c_helcoup := v; c_flags := c_flags c; c_dyn := c_dyn c;
                     c_topos := c_topos c |}
  end.
Definition with_flags (c : config) (f : flags) : config :=
  {| c_align := c_align c; c_scalar := c_scalar c; c_stable := c_stable c;
     c_helcoup := c_helcoup c; c_flags := f; c_dyn := c_dyn c; c_topos := c_topos c |}.
Definition with_dyn (c : config) (d : list (nat * nat)) : config :=
  {| c_align := c_align c; c_scalar := c_scalar c; c_stable := c_stable c;
     c_helcoup := c_helcoup c; c_flags := c_flags c; c_dyn := d; c_topos := c_topos c |}.
Definition with_topos (c : config) (t : list nat) : config :=
  {| c_align := c_align c; c_scalar := c_scalar c; c_stable := c_stable c;
     c_helcoup := c_helcoup c; c_flags := c_flags c; c_dyn := c_dyn c; c_topos := t |}.

(* ------------------------------------------------------------------------------------ *)
Section World.
  Variable val : Type.     (* SymPy expressions / parameter values: opaque *)
  Variable ntab : Type.    (* the parity-partner coefficient mapping of a name generator *)
  Notation vdict := (list (nat * val)).
  Notation vget := (dget Nat.eqb).
  Notation vset := (dset Nat.eqb).
  Notation vdel := (ddel Nat.eqb).
  Notation vupdate := (dupdate Nat.eqb).
  Notation vlast := (dlast Nat.eqb).
  Notation vcanon := (canon Nat.eqb Nat.ltb).

  (* ---- pure pieces: functions of their arguments only ---- *)
  Variable default_flags : nat -> flags.          (* helicity vs canonical name generator *)
  Variable base_topos : nat -> list nat.          (* topologies of the reaction (sorted) *)
  Variable perms_of : nat -> list nat.            (* final-state permutations of a topology *)
  Variable decays_of : nat -> nat -> list nat.    (* reaction, resonance -> its two-body decay nodes *)
  Variable register : nat -> flags -> ntab.       (* _register_amplitude_coefficients *)
  Variable top : nat -> config -> ntab -> val * vdict * vdict * vdict.
     (* __formulate_top_expression: intensity and, in program order, the writes
        ingredients.amplitudes[k]=v, .parameter_defaults[k]=v, .components[k]=v *)
  Variable topo_vars : nat -> nat -> vdict.       (* helicity angles + invariant masses *)
  Variable moves : nat -> config -> vdict.        (* stable / scalar masses: kv -> parameters *)
  Variable align_syms : nat -> align -> vdict.    (* what define_symbols computes *)
  Variable xrepl : (nat -> option val) -> val -> val.    (* expr.xreplace(mapping) *)
  Variable new_masses : nat -> config -> val -> vdict.   (* kinematic_variables[m] = InvariantMass *)
  Variable loop_pars : nat -> config -> val -> vdict.    (* parameter_defaults[m_0] = mass *)

  Record scratch := { s_amps : vdict; s_pars : vdict; s_comps : vdict }.
  Definition empty_scratch : scratch := {| s_amps := []; s_pars := []; s_comps := [] |}.

  Record model := {
    m_intensity : val; m_amps : vdict; m_pars : vdict; m_kin : vdict; m_comps : vdict;
    m_reaction : nat
  }.

  (* HelicityAdapter.create_expressions, iterating the topology set in [order] *)
  Definition create (r : nat) (order : list nat) : vdict :=
    fold_left (fun acc t => vupdate acc (topo_vars r t)) order [].

  Definition do_moves (mv : vdict) (st : vdict * vdict) : vdict * vdict :=
    fold_left (fun st kv => (vdel (fst st) (fst kv), vset (snd st) (fst kv) (snd kv))) mv st.

  (* one iteration of  for angle_symbol, angle_expr in alignment_symbols.items(): ...
     state = (the object being written, kinematic_variables, parameter_defaults) *)
  Definition loop_body (r : nat) (c : config) (st : vdict * vdict * vdict) (item : nat * val)
    : vdict * vdict * vdict :=
    let obj := fst (fst st) in let kv := snd (fst st) in let ps := snd st in
    let e1 := xrepl (vget kv) (snd item) in
    let kv' := vupdate kv (new_masses r c e1) in
    let ps' := vupdate ps (loop_pars r c e1) in
    (vset obj (fst item) (xrepl (vget kv') e1), kv', ps').

  (* the body of formulate() given: the naming table in force, the scratch it starts
     from, the set-iteration order, and the content of the object define_symbols returned.
     Result: the model, the scratch left behind, the final content of that object. *)
  Definition core (r : nat) (c : config) (nt : ntab) (s0 : scratch) (order : list nat)
             (obj0 : vdict) : model * scratch * vdict :=
    let t := top r c nt in
    let amps := vupdate (s_amps s0) (snd (fst (fst t))) in
    let pars := vupdate (s_pars s0) (snd (fst t)) in
    let comps := vupdate (s_comps s0) (snd t) in
    let kv0 := create r order in
    let mv := do_moves (moves r c) (kv0, pars) in
    let lp := fold_left (loop_body r c) obj0 (obj0, fst mv, snd mv) in
    let obj := fst (fst lp) in
    let kv3 := vupdate (snd (fst lp)) obj in
    ({| m_intensity := fst (fst (fst t)); m_amps := vcanon amps; m_pars := snd lp;
        m_kin := vcanon kv3; m_comps := vcanon comps; m_reaction := r |},
     {| s_amps := amps; s_pars := snd lp; s_comps := comps |},
     obj).

  (* THE SPECIFICATION: manifestly a function of (reaction, configuration) only *)
  Definition formulate_spec (r : nat) (c : config) : model :=
    fst (fst (core r c (register r (c_flags c)) empty_scratch (c_topos c)
                   (align_syms r (c_align c)))).

  (* ---- the world ---- *)
  Record builder := { b_reaction : nat; b_config : config; b_ntab : ntab; b_scratch : scratch }.
  Record world := {
    w_memo : list ((nat * align) * nat);   (* functools.cache of _formulate_aligned_amplitude *)
    w_heap : list vdict;                   (* address = position *)
    w_builders : list builder
  }.
  Definition init : world := {| w_memo := []; w_heap := []; w_builders := [] |}.

  Fixpoint mlookup (m : list ((nat * align) * nat)) (r : nat) (a : align) : option nat :=
    match m with
    | [] => None
    | ((r', a'), addr) :: rest =>
        if (r =? r') && align_eqb a a' then Some addr else mlookup rest r a
    end.
  Definition hget (h : list vdict) (a : nat) : vdict := nth a h [].
  Fixpoint hput (h : list vdict) (a : nat) (d : vdict) : list vdict :=
    match h, a with
    | [], _ => []
    | _ :: r, 0 => d :: r
    | x :: r, S a' => x :: hput r a' d
    end.
  Fixpoint bput (bs : list builder) (i : nat) (b : builder) : list builder :=
    match bs, i with
    | [], _ => []
    | _ :: r, 0 => b :: r
    | x :: r, S i' => x :: bput r i' b
    end.

  (* define_symbols: new memo table, new heap, content of the returned object, and its
     address when the returned object IS the memoised one *)
  Definition define_symbols (sk : skeleton) (memo : list ((nat * align) * nat))
             (heap : list vdict) (r : nat) (a : align)
    : list ((nat * align) * nat) * list vdict * vdict * option nat :=
    match sk_define sk a with
    | Fresh => (memo, heap, align_syms r a, None)
    | mode =>
        let '(memo', heap', addr) :=
          match mlookup memo r a with
          | Some addr => (memo, heap, addr)
          | None => (((r, a), length heap) :: memo, heap ++ [align_syms r a], length heap)
          end in
        (memo', heap', hget heap' addr, if is_alias mode then Some addr else None)
    end.

  Definition upd_builder (w : world) (i : nat) (b : builder) : world :=
    {| w_memo := w_memo w; w_heap := w_heap w; w_builders := bput (w_builders w) i b |}.

  Definition step (sk : skeleton) (w : world) (o : op) : world * option (nat * config * model) :=
    match o with
    | NewBuilder r =>
        let c := {| c_align := NoAlign; c_scalar := false; c_stable := None; c_helcoup := false;
                    c_flags := default_flags r; c_dyn := []; c_topos := base_topos r |} in
        ({| w_memo := w_memo w; w_heap := w_heap w;
            w_builders := w_builders w ++
              [{| b_reaction := r; b_config := c; b_ntab := register r (default_flags r);
                  b_scratch := empty_scratch |}] |}, None)
    | SetConfig i f =>
        match nth_error (w_builders w) i with
        | None => (w, None)
        | Some B => (upd_builder w i {| b_reaction := b_reaction B;
                                        b_config := set_field (b_config B) f;
                                        b_ntab := b_ntab B; b_scratch := b_scratch B |}, None)
        end
    | SetNaming i n v =>
        match nth_error (w_builders w) i with
        | None => (w, None)
        | Some B =>
            let fl := set_flag (c_flags (b_config B)) n v in
            (upd_builder w i {| b_reaction := b_reaction B;
                                b_config := with_flags (b_config B) fl;
                                b_ntab := if sk_reregisters sk then register (b_reaction B) fl
                                          else b_ntab B;
                                b_scratch := b_scratch B |}, None)
        end
    | Assign i sel bld =>
        match nth_error (w_builders w) i with
        | None => (w, None)
        | Some B => (upd_builder w i {| b_reaction := b_reaction B;
                                        b_config := with_dyn (b_config B)
                                                      (fold_right (fun d acc => aset d bld acc)
                                                                  (c_dyn (b_config B))
                                                                  (decays_of (b_reaction B) sel));
                                        b_ntab := b_ntab B; b_scratch := b_scratch B |}, None)
        end
    | AssignDecay i d bld =>
        match nth_error (w_builders w) i with
        | None => (w, None)
        | Some B => (upd_builder w i {| b_reaction := b_reaction B;
                                        b_config := with_dyn (b_config B)
                                                      (aset d bld (c_dyn (b_config B)));
                                        b_ntab := b_ntab B; b_scratch := b_scratch B |}, None)
        end
    | RegisterTopo i t =>
        match nth_error (w_builders w) i with
        | None => (w, None)
        | Some B => (upd_builder w i {| b_reaction := b_reaction B;
                                        b_config := with_topos (b_config B)
                                                      (sins t (c_topos (b_config B)));
                                        b_ntab := b_ntab B; b_scratch := b_scratch B |}, None)
        end
    | Permutate i =>
        match nth_error (w_builders w) i with
        | None => (w, None)
        | Some B =>
            let ts := c_topos (b_config B) in
            (upd_builder w i {| b_reaction := b_reaction B;
                                b_config := with_topos (b_config B)
                                              (fold_right sins ts (flat_map perms_of ts));
                                b_ntab := b_ntab B; b_scratch := b_scratch B |}, None)
        end
    | Formulate i order =>
        match nth_error (w_builders w) i with
        | None => (w, None)
        | Some B =>
            let r := b_reaction B in let c := b_config B in
            let s0 := if sk_resets sk then empty_scratch else b_scratch B in
            let ord := if same_members order (c_topos c) then order else c_topos c in
            let '(memo', heap', obj0, alias) :=
              define_symbols sk (w_memo w) (w_heap w) r (c_align c) in
            let res := core r c (b_ntab B) s0 ord obj0 in
            let heap'' := match alias with
                          | Some addr => hput heap' addr (snd res)   (* written through *)
                          | None => heap'
                          end in
            ({| w_memo := memo'; w_heap := heap'';
                w_builders := bput (w_builders w) i
                  {| b_reaction := r; b_config := c; b_ntab := b_ntab B;
                     b_scratch := snd (fst res) |} |},
             Some (r, c, fst (fst res)))
        end
    end.

  (* a history from a world: the final world and, per Formulate, (reaction, config, model) *)
  Fixpoint run (sk : skeleton) (w : world) (ops : list op) : world * list (nat * config * model) :=
    match ops with
    | [] => (w, [])
    | o :: rest =>
        let s := step sk w o in
        let rr := run sk (fst s) rest in
        (fst rr, match snd s with Some x => x :: snd rr | None => snd rr end)
    end.
End World.

(* ------------------------------------------------------------------------------------ *)
(* A concrete instance: expressions are bags of atoms.  Used for non-vacuity examples,
   for the refutation witness on the pre-fix skeleton and by the T2 correspondence run
   (there only the (reaction, config) components of the log are read). *)
Module Toy.
  Definition tval := list nat.
  (* atoms: m_i = i (i < 10); InvariantMass(p_i) = 100 + i; parameter value of m_i = 200 + i;
     zeta angle symbols 50..; anything else is inert *)
  Definition t_default_flags (r : nat) : flags :=
    {| f_parent := false; f_child := Nat.even r; f_ls := Nat.odd r |}.
  Definition t_register (r : nat) (f : flags) : list nat :=
    [r; Nat.b2n (f_parent f); Nat.b2n (f_child f); Nat.b2n (f_ls f)].
  Definition t_top (r : nat) (c : config) (nt : list nat)
    : tval * list (nat * tval) * list (nat * tval) * list (nat * tval) :=
    ([7; r],
     [(61, 60 :: nt); (60, [r])],
     (if c_helcoup c then [(71, [1]); (72, [1])] else [(70, [1])])
       ++ map (fun sb => (80 + fst sb, [snd sb])) (c_dyn c),
     [(91, nt); (90, [if c_helcoup c then 1 else 0])]).
  Definition t_topo_vars (r t : nat) : list (nat * tval) :=
    [(1, [101]); (2, [102]); (3, [103]); (0, [100]); (20 + t, [120 + t])].
  Definition t_moves (r : nat) (c : config) : list (nat * tval) :=
    match c_stable c with Some s => map (fun i => (i, [200 + i])) s | None => [] end
    ++ (if c_scalar c then [(0, [200])] else []).
  Definition t_align_syms (r : nat) (a : align) : list (nat * tval) :=
    match a with
    | NoAlign => []
    | AxisAngle => [(40, [1; 3]); (41, [2])]
    | DPD n => [(50 + n, [1; 2; 0]); (55, [3; n + 10])]
    end.
  Definition t_xrepl (f : nat -> option tval) (e : tval) : tval :=
    flat_map (fun a => match f a with Some v => v | None => [a] end) e.
  Definition is_stable (c : config) (i : nat) : bool :=
    match c_stable c with Some s => existsb (Nat.eqb i) s | None => false end.
  Definition t_new_masses (r : nat) (c : config) (e : tval) : list (nat * tval) :=
    flat_map (fun a => if (a <? 10) && negb ((a =? 0) && c_scalar c) && negb (is_stable c a)
                       then [(a, [100 + a])] else []) e.
  Definition t_loop_pars (r : nat) (c : config) (e : tval) : list (nat * tval) :=
    flat_map (fun a => if (a =? 0) && c_scalar c then [(0, [200])] else []) e.

  (* flat encodings used by the correspondence run (printed by vm_compute, parsed by the
     harness):  [r; align; scalar; stable?; #stable; ids..; helcoup; parent; child; ls;
                 #dyn; sel; bld; ..; #topos; t..] *)
  Definition enc_align (a : align) : nat :=
    match a with NoAlign => 0 | AxisAngle => 1 | DPD n => 10 + n end.
  Definition enc_cfg (r : nat) (c : config) : list nat :=
    [r; enc_align (c_align c); Nat.b2n (c_scalar c)]
    ++ match c_stable c with None => [0; 0] | Some s => 1 :: length s :: s end
    ++ [Nat.b2n (c_helcoup c); Nat.b2n (f_parent (c_flags c)); Nat.b2n (f_child (c_flags c));
        Nat.b2n (f_ls (c_flags c)); length (c_dyn c)]
    ++ flat_map (fun sb => [fst sb; snd sb]) (c_dyn c)
    ++ length (c_topos c) :: c_topos c.

  Fixpoint list_eqb (l1 l2 : list nat) : bool :=
    match l1, l2 with
    | [], [] => true
    | x :: r1, y :: r2 => (x =? y) && list_eqb r1 r2
    | _, _ => false
    end.
  Fixpoint tdict_eqb (d1 d2 : list (nat * tval)) : bool :=
    match d1, d2 with
    | [], [] => true
    | (k1, v1) :: r1, (k2, v2) :: r2 => (k1 =? k2) && list_eqb v1 v2 && tdict_eqb r1 r2
    | _, _ => false
    end.
  Definition tmodel_eqb (a b : model tval) : bool :=
    list_eqb (m_intensity a) (m_intensity b) && tdict_eqb (m_amps a) (m_amps b)
    && tdict_eqb (m_pars a) (m_pars b) && tdict_eqb (m_kin a) (m_kin b)
    && tdict_eqb (m_comps a) (m_comps b) && (m_reaction a =? m_reaction b).

  Section WithTopologies.
    Variable base_topos : nat -> list nat.
    Variable perms_of : nat -> list nat.
    Variable decays_of : nat -> nat -> list nat.
    Definition t_step := step t_default_flags base_topos perms_of decays_of t_register t_top t_topo_vars
                              t_moves t_align_syms t_xrepl t_new_masses t_loop_pars.
    Definition t_run := run t_default_flags base_topos perms_of decays_of t_register t_top t_topo_vars
                            t_moves t_align_syms t_xrepl t_new_masses t_loop_pars.
    Definition t_spec := formulate_spec t_register t_top t_topo_vars t_moves t_align_syms
                                        t_xrepl t_new_masses t_loop_pars.
    (* per Formulate of a history: the encoded (reaction, config) and whether the toy
       model equals the toy specification *)
    Definition t_show (sk : skeleton) (ops : list op) : list (list nat * bool) :=
      map (fun x => (enc_cfg (fst (fst x)) (snd (fst x)),
                     tmodel_eqb (snd x) (t_spec (fst (fst x)) (snd (fst x)))))
          (snd (t_run sk (init tval (list nat)) ops)).
  End WithTopologies.

  (* the skeleton of the current tree as read from the source (the harness re-derives it
     from observation on every run) and of the tree before commit 0964182 *)
  Definition sk_fixed : skeleton :=
    {| sk_none := Fresh; sk_axis := Fresh; sk_dpd := MemoCopy;
       sk_resets := true; sk_reregisters := true |}.
  Definition sk_pinned : skeleton :=
    {| sk_none := Fresh; sk_axis := Fresh; sk_dpd := MemoAlias;
       sk_resets := true; sk_reregisters := true |}.
End Toy.
