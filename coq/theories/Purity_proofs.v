(* Purity_proofs.v — proofs about the model in Purity.v (property C06). *)
From Coq Require Import List Bool Arith Lia Permutation.
From AV Require Import Purity.
Import ListNotations.
Set Implicit Arguments.

(* ------------------------------------------------------------------------------------ *)
Section DictFacts.
  Variables K V : Type.
  Variable keqb : K -> K -> bool.
  Hypothesis keqb_spec : forall a b, reflect (a = b) (keqb a b).
  Notation dict := (list (K * V)).
  Notation get := (dget (V:=V) keqb).
  Notation set := (dset (V:=V) keqb).

  Definition lookup_equiv (d1 d2 : dict) : Prop := forall k, get d1 k = get d2 k.

  Lemma keqb_refl : forall a, keqb a a = true.
  Proof. intros a. destruct (keqb_spec a a); congruence. Qed.
  Lemma keqb_sym : forall a b, keqb a b = keqb b a.
  Proof. intros a b. destruct (keqb_spec a b), (keqb_spec b a); congruence. Qed.

  Lemma dget_dset : forall d k v k',
    get (set d k v) k' = if keqb k' k then Some v else get d k'.
  Proof.
    induction d as [|[k0 v0] r IH]; intros k v k'; simpl.
    - reflexivity.
    - destruct (keqb_spec k k0) as [->|Hne]; simpl.
      + destruct (keqb k' k0); reflexivity.
      + rewrite IH. destruct (keqb_spec k' k0) as [->|Hne'].
        * destruct (keqb_spec k0 k); congruence.
        * reflexivity.
  Qed.

  Lemma dget_ddel : forall d k k',
    get (ddel keqb d k) k' = if keqb k' k then None else get d k'.
  Proof.
    induction d as [|[k0 v0] r IH]; intros k k'; simpl.
    - destruct (keqb k' k); reflexivity.
    - destruct (keqb_spec k k0) as [->|Hne]; simpl.
      + rewrite IH. destruct (keqb k' k0); reflexivity.
      + rewrite IH. destruct (keqb_spec k' k0) as [->|Hne'].
        * destruct (keqb_spec k0 k); congruence.
        * reflexivity.
  Qed.

  Lemma dget_app : forall d1 d2 k,
    get (d1 ++ d2) k = match get d1 k with Some v => Some v | None => get d2 k end.
  Proof.
    induction d1 as [|[k0 v0] r IH]; intros; simpl; auto.
    destruct (keqb k k0); auto.
  Qed.

  Lemma dget_dupdate : forall d' d k,
    get (dupdate keqb d d') k
    = match dlast keqb d' k with Some v => Some v | None => get d k end.
  Proof.
    unfold dupdate, dlast.
    induction d' as [|[k0 v0] r IH]; intros d k; simpl.
    - reflexivity.
    - rewrite IH, dget_app, dget_dset. simpl.
      destruct (get (rev r) k); auto. destruct (keqb k k0); auto.
  Qed.

  Lemma dset_congr : forall d1 d2 k v,
    lookup_equiv d1 d2 -> lookup_equiv (set d1 k v) (set d2 k v).
  Proof. intros d1 d2 k v H k'. rewrite !dget_dset, H. reflexivity. Qed.
  Lemma ddel_congr : forall d1 d2 k,
    lookup_equiv d1 d2 -> lookup_equiv (ddel keqb d1 k) (ddel keqb d2 k).
  Proof. intros d1 d2 k H k'. rewrite !dget_ddel, H. reflexivity. Qed.
  Lemma dupdate_congr : forall d1 d2 d',
    lookup_equiv d1 d2 -> lookup_equiv (dupdate keqb d1 d') (dupdate keqb d2 d').
  Proof. intros d1 d2 d' H k. rewrite !dget_dupdate, H. reflexivity. Qed.

  Lemma dget_In : forall d k v, get d k = Some v -> In (k, v) d.
  Proof.
    induction d as [|[k0 v0] r IH]; simpl; intros k v H; [discriminate|].
    destruct (keqb_spec k k0) as [->|Hne].
    - inversion H; subst; auto.
    - right; auto.
  Qed.
  Lemma dget_None_notin : forall d k, get d k = None -> forall v, ~ In (k, v) d.
  Proof.
    induction d as [|[k0 v0] r IH]; simpl; intros k H v Hin; auto.
    destruct (keqb_spec k k0) as [E0|Hne]; [discriminate|].
    destruct Hin as [E|Hin]; [inversion E; congruence|]. eapply IH; eauto.
  Qed.
  Lemma In_dget_nodup : forall d k v, NoDup (map fst d) -> In (k, v) d -> get d k = Some v.
  Proof.
    induction d as [|[k0 v0] r IH]; simpl; intros k v Hnd Hin; [tauto|].
    inversion Hnd as [|? ? Hnot Hnd']; subst.
    destruct Hin as [E|Hin].
    - inversion E; subst. rewrite keqb_refl. reflexivity.
    - destruct (keqb_spec k k0) as [->|Hne].
      + exfalso. apply Hnot. change k0 with (fst (k0, v)). apply in_map. exact Hin.
      + auto.
  Qed.

  (* ---- the sorting converters ---- *)
  Variable kltb : K -> K -> bool.
  Hypothesis klt_irrefl : forall a, kltb a a = false.
  Hypothesis klt_trans : forall a b c, kltb a b = true -> kltb b c = true -> kltb a c = true.
  Hypothesis klt_total : forall a b, a = b \/ kltb a b = true \/ kltb b a = true.
  Notation ins := (insert (V:=V) keqb kltb).
  Notation cano := (canon (V:=V) keqb kltb).
  Notation sorted := (ssorted (V:=V) kltb).

  Lemma below_none : forall (l : dict) k,
    (forall k' v', In (k', v') l -> kltb k k' = true) -> get l k = None.
  Proof.
    induction l as [|[k0 v0] r IH]; simpl; intros k H; auto.
    destruct (keqb_spec k k0) as [->|Hne].
    - specialize (H k0 v0 (or_introl eq_refl)). rewrite klt_irrefl in H. discriminate.
    - apply IH. intros; eapply H; eauto.
  Qed.

  Lemma insert_In : forall l k v k' v',
    In (k', v') (ins k v l) -> (k' = k /\ v' = v) \/ In (k', v') l.
  Proof.
    induction l as [|[k0 v0] r IH]; simpl; intros k v k' v' H.
    - destruct H as [E|[]]; inversion E; auto.
    - destruct (keqb k k0); [auto|]. destruct (kltb k k0).
      + destruct H as [E|H]; [inversion E; auto|auto].
      + destruct H as [E|H]; [auto|]. apply IH in H. tauto.
  Qed.

  Lemma insert_sorted : forall l k v, sorted l -> sorted (ins k v l).
  Proof.
    induction l as [|[k0 v0] r IH]; simpl; intros k v H.
    - split; [intros ? ? []|exact I].
    - destruct H as [Hlt Hs].
      destruct (keqb_spec k k0) as [->|Hne]; [simpl; auto|].
      destruct (kltb k k0) eqn:Hk; simpl.
      + split; [|auto]. intros k' v' [E|Hin].
        * inversion E; subst; auto.
        * eapply klt_trans; eauto.
      + split; [|auto]. intros k' v' Hin. apply insert_In in Hin.
        destruct Hin as [[-> ->]|Hin]; [|eauto].
        destruct (klt_total k k0) as [E|[E|E]]; congruence.
  Qed.

  Lemma insert_get : forall l k v k', sorted l ->
    get (ins k v l) k'
    = match get l k' with Some x => Some x | None => if keqb k' k then Some v else None end.
  Proof.
    induction l as [|[k0 v0] r IH]; simpl; intros k v k' Hs.
    - reflexivity.
    - destruct Hs as [Hlt Hs].
      destruct (keqb_spec k k0) as [->|Hne]; simpl.
      + destruct (keqb k' k0); auto. destruct (get r k'); auto.
      + destruct (kltb k k0) eqn:Hk; simpl.
        * destruct (keqb_spec k' k) as [->|Hne'].
          -- destruct (keqb_spec k k0); [congruence|].
             rewrite below_none; auto. intros; eapply klt_trans; eauto.
          -- destruct (keqb k' k0); auto. destruct (get r k'); auto.
        * destruct (keqb k' k0); auto.
  Qed.

  Lemma canon_acc : forall d acc, sorted acc ->
    sorted (fold_left (fun a kv => ins (fst kv) (snd kv) a) d acc)
    /\ forall k, get (fold_left (fun a kv => ins (fst kv) (snd kv) a) d acc) k
                 = match get acc k with Some x => Some x | None => get d k end.
  Proof.
    induction d as [|[k0 v0] r IH]; simpl; intros acc Hs.
    - split; auto. intros k. destruct (get acc k); auto.
    - destruct (IH (ins k0 v0 acc) (insert_sorted _ k0 v0 Hs)) as [H1 H2]. split; auto.
      intros k. rewrite H2, insert_get by auto.
      destruct (get acc k); auto. destruct (keqb k k0); auto.
  Qed.

  Lemma canon_sorted : forall d, sorted (cano d).
  Proof. intros d. apply (canon_acc d []). exact I. Qed.
  Lemma canon_get : forall d k, get (cano d) k = get d k.
  Proof. intros d k. apply (canon_acc d []). exact I. Qed.

  Lemma sorted_ext : forall l1 l2 : dict, sorted l1 -> sorted l2 -> lookup_equiv l1 l2 -> l1 = l2.
  Proof.
    induction l1 as [|[k1 v1] r1 IH]; intros [|[k2 v2] r2] H1 H2 He; auto.
    - specialize (He k2). simpl in He. rewrite keqb_refl in He. discriminate.
    - specialize (He k1). simpl in He. rewrite keqb_refl in He. discriminate.
    - destruct H1 as [L1 S1], H2 as [L2 S2].
      assert (k1 = k2) as ->.
      { destruct (klt_total k1 k2) as [E|[E|E]]; auto; exfalso.
        - pose proof (He k1) as H. simpl in H. rewrite keqb_refl in H.
          destruct (keqb_spec k1 k2) as [->|_]; [rewrite klt_irrefl in E; discriminate|].
          rewrite below_none in H; [discriminate|]. intros; eapply klt_trans; eauto.
        - pose proof (He k2) as H. simpl in H. rewrite keqb_refl in H.
          destruct (keqb_spec k2 k1) as [->|_]; [rewrite klt_irrefl in E; discriminate|].
          rewrite below_none in H; [discriminate|]. intros; eapply klt_trans; eauto. }
      assert (v1 = v2) as ->.
      { pose proof (He k2) as H. simpl in H. rewrite keqb_refl in H. congruence. }
      f_equal. apply IH; auto. intros k. pose proof (He k) as H. simpl in H.
      destruct (keqb_spec k k2) as [E0|Hne]; [|exact H].
      subst k. rewrite !below_none; auto.
  Qed.

  (* the sorted dictionary is a function of the lookup function of its input *)
  Lemma canon_ext : forall d1 d2, lookup_equiv d1 d2 -> cano d1 = cano d2.
  Proof.
    intros d1 d2 H. apply sorted_ext; try apply canon_sorted.
    intros k. rewrite !canon_get. apply H.
  Qed.

  Lemma perm_lookup : forall d1 d2 : dict,
    Permutation d1 d2 -> NoDup (map fst d1) -> lookup_equiv d1 d2.
  Proof.
    intros d1 d2 HP Hnd k.
    assert (Hnd2 : NoDup (map fst d2)).
    { eapply Permutation_NoDup; [apply Permutation_map; exact HP|exact Hnd]. }
    destruct (get d1 k) as [v|] eqn:E1.
    - symmetry. apply In_dget_nodup; auto. eapply Permutation_in; [exact HP|]. apply dget_In; auto.
    - destruct (get d2 k) as [v|] eqn:E2; auto. exfalso.
      apply dget_In in E2. eapply dget_None_notin; [exact E1|].
      eapply Permutation_in; [apply Permutation_sym; exact HP|exact E2].
  Qed.

  Lemma canon_perm : forall d1 d2 : dict,
    Permutation d1 d2 -> NoDup (map fst d1) -> cano d1 = cano d2.
  Proof. intros. apply canon_ext, perm_lookup; auto. Qed.
End DictFacts.

(* ------------------------------------------------------------------------------------ *)
Lemma nat_lt_irrefl : forall a, Nat.ltb a a = false.
Proof. intros; apply Nat.ltb_irrefl. Qed.
Lemma nat_lt_trans : forall a b c, Nat.ltb a b = true -> Nat.ltb b c = true -> Nat.ltb a c = true.
Proof. intros a b c H1 H2. apply Nat.ltb_lt in H1, H2. apply Nat.ltb_lt. lia. Qed.
Lemma nat_lt_total : forall a b, a = b \/ Nat.ltb a b = true \/ Nat.ltb b a = true.
Proof.
  intros a b. destruct (Nat.lt_trichotomy a b) as [H|[H|H]]; auto;
    [right; left|right; right]; apply Nat.ltb_lt; auto.
Qed.

Lemma align_eqb_eq : forall a b, align_eqb a b = true -> a = b.
Proof. intros [| |m] [| |n]; simpl; try discriminate; auto. intros H. apply Nat.eqb_eq in H. congruence. Qed.

Lemma same_members_spec : forall l1 l2,
  same_members l1 l2 = true -> forall x, In x l1 <-> In x l2.
Proof.
  unfold same_members. intros l1 l2 H x. apply andb_prop in H. destruct H as [H1 H2].
  rewrite forallb_forall in H1, H2. split; intros Hin.
  - apply H1 in Hin. apply existsb_exists in Hin. destruct Hin as [y [Hy E]].
    apply Nat.eqb_eq in E. congruence.
  - apply H2 in Hin. apply existsb_exists in Hin. destruct Hin as [y [Hy E]].
    apply Nat.eqb_eq in E. congruence.
Qed.
Lemma same_members_refl : forall l, same_members l l = true.
Proof.
  intros l. unfold same_members.
  assert (forallb (fun x => existsb (Nat.eqb x) l) l = true) as ->; auto.
  apply forallb_forall. intros x Hx. apply existsb_exists. exists x. split; auto. apply Nat.eqb_refl.
Qed.

(* ------------------------------------------------------------------------------------ *)
Section WorldFacts.
  Variable val ntab : Type.
  Notation vdict := (list (nat * val)).
  Variable default_flags : nat -> flags.
  Variable base_topos : nat -> list nat.
  Variable perms_of : nat -> list nat.
  Variable decays_of : nat -> nat -> list nat.
  Variable register : nat -> flags -> ntab.
  Variable top : nat -> config -> ntab -> val * vdict * vdict * vdict.
  Variable topo_vars : nat -> nat -> vdict.
  Variable moves : nat -> config -> vdict.
  Variable align_syms : nat -> align -> vdict.
  Variable xrepl : (nat -> option val) -> val -> val.
  Variable new_masses : nat -> config -> val -> vdict.
  Variable loop_pars : nat -> config -> val -> vdict.

  (* xreplace depends on the mapping only through lookups *)
  Hypothesis xrepl_ext : forall f g e, (forall k, f k = g k) -> xrepl f e = xrepl g e.
  (* C07's uniqueness: one symbol name, one definition, whatever topology produced it *)
  Hypothesis compat : forall r t1 t2 k v1 v2,
    dlast Nat.eqb (topo_vars r t1) k = Some v1 ->
    dlast Nat.eqb (topo_vars r t2) k = Some v2 -> v1 = v2.

  Notation vget := (dget (V:=val) Nat.eqb).
  Notation equiv := (lookup_equiv (V:=val) Nat.eqb).
  Notation Core := (core top topo_vars moves xrepl new_masses loop_pars).
  Notation Spec := (formulate_spec register top topo_vars moves align_syms xrepl new_masses loop_pars).
  Notation Step := (step default_flags base_topos perms_of decays_of register top topo_vars moves
                         align_syms xrepl new_masses loop_pars).
  Notation Run := (run default_flags base_topos perms_of decays_of register top topo_vars moves
                       align_syms xrepl new_masses loop_pars).
  Notation Define := (define_symbols align_syms).
  Notation World := (world val ntab).
  Notation Init := (init val ntab).

  Let spec := Nat.eqb_spec.

  (* ---- create_expressions does not depend on the set-iteration order ---- *)
  Definition lk (r : nat) (k : nat) (ts : list nat) (o : option val) : option val :=
    fold_left (fun o t => match dlast Nat.eqb (topo_vars r t) k with Some v => Some v | None => o end) ts o.

  Lemma create_get : forall r ts acc k,
    vget (fold_left (fun acc t => dupdate Nat.eqb acc (topo_vars r t)) ts acc) k
    = lk r k ts (vget acc k).
  Proof.
    induction ts as [|t ts IH]; intros acc k; simpl; auto.
    rewrite IH. f_equal. apply (@dget_dupdate _ _ _ spec).
  Qed.

  Lemma lk_none : forall r k ts o,
    (forall t, In t ts -> dlast Nat.eqb (topo_vars r t) k = None) -> lk r k ts o = o.
  Proof.
    induction ts as [|t ts IH]; intros o H; simpl; auto.
    rewrite (H t (or_introl eq_refl)). apply IH. intros; apply H; right; auto.
  Qed.

  Lemma lk_some : forall r k ts o t v,
    In t ts -> dlast Nat.eqb (topo_vars r t) k = Some v -> lk r k ts o = Some v.
  Proof.
    intros r k ts. induction ts as [|t0 ts IH] using rev_ind; intros o t v Hin Hv.
    - destruct Hin.
    - unfold lk. rewrite fold_left_app. simpl. fold (lk r k ts o).
      destruct (dlast Nat.eqb (topo_vars r t0) k) as [v0|] eqn:E0.
      + f_equal. eapply compat; eauto.
      + apply in_app_or in Hin. destruct Hin as [Hin|[->|[]]]; [eauto|congruence].
  Qed.

  Lemma lk_decide : forall r k ts,
    (exists t v, In t ts /\ dlast Nat.eqb (topo_vars r t) k = Some v)
    \/ (forall t, In t ts -> dlast Nat.eqb (topo_vars r t) k = None).
  Proof.
    induction ts as [|t ts IH].
    - right. intros ? [].
    - destruct (dlast Nat.eqb (topo_vars r t) k) as [v|] eqn:E.
      + left. exists t, v. split; simpl; auto.
      + destruct IH as [[t' [v [Hin Hv]]]|Hn].
        * left. exists t', v. split; simpl; auto.
        * right. intros t' [<-|Hin]; auto.
  Qed.

  Lemma create_equiv : forall r o1 o2,
    same_members o1 o2 = true -> equiv (create topo_vars r o1) (create topo_vars r o2).
  Proof.
    intros r o1 o2 H k. pose proof (same_members_spec _ _ H) as Hm.
    unfold create. rewrite !create_get. simpl.
    destruct (lk_decide r k o1) as [[t [v [Hin Hv]]]|Hn].
    - rewrite (lk_some r k o1 None t Hin Hv).
      rewrite (lk_some r k o2 None t (proj1 (Hm t) Hin) Hv). reflexivity.
    - rewrite !lk_none; auto. intros t Hin. apply Hn, Hm, Hin.
  Qed.

  (* ---- the rest of formulate() respects lookup equivalence of kinematic_variables ---- *)
  Lemma do_moves_congr : forall mv kv kv' ps,
    equiv kv kv' ->
    equiv (fst (do_moves mv (kv, ps))) (fst (do_moves mv (kv', ps)))
    /\ snd (do_moves mv (kv, ps)) = snd (do_moves mv (kv', ps)).
  Proof.
    unfold do_moves. induction mv as [|[k v] mv IH]; intros kv kv' ps H; simpl; auto.
    apply IH. apply (@ddel_congr _ _ _ spec). exact H.
  Qed.

  Definition st_eq (a b : vdict * vdict * vdict) : Prop :=
    fst (fst a) = fst (fst b) /\ equiv (snd (fst a)) (snd (fst b)) /\ snd a = snd b.

  Lemma loop_body_congr : forall r c a b item,
    st_eq a b ->
    st_eq (loop_body xrepl new_masses loop_pars r c a item)
          (loop_body xrepl new_masses loop_pars r c b item).
  Proof.
    intros r c [[obj kv] ps] [[obj' kv'] ps'] [k e] [Ho [Hk Hp]]. simpl in Ho, Hk, Hp. subst obj' ps'.
    unfold loop_body, st_eq. simpl.
    assert (E1 : xrepl (vget kv) e = xrepl (vget kv') e) by (apply xrepl_ext; exact Hk).
    rewrite <- E1.
    assert (H' : equiv (dupdate Nat.eqb kv (new_masses r c (xrepl (vget kv) e)))
                       (dupdate Nat.eqb kv' (new_masses r c (xrepl (vget kv) e))))
      by (apply (@dupdate_congr _ _ _ spec); exact Hk).
    rewrite (xrepl_ext _ _ (xrepl (vget kv) e) H').
    split; [reflexivity|]. split; [exact H'|reflexivity].
  Qed.

  Lemma loop_congr : forall r c items a b,
    st_eq a b ->
    st_eq (fold_left (loop_body xrepl new_masses loop_pars r c) items a)
          (fold_left (loop_body xrepl new_masses loop_pars r c) items b).
  Proof.
    induction items as [|item items IH]; intros a b H; simpl; auto.
    apply IH. apply loop_body_congr. exact H.
  Qed.

  Lemma core_order : forall r c nt s0 o1 o2 obj0,
    same_members o1 o2 = true -> Core r c nt s0 o1 obj0 = Core r c nt s0 o2 obj0.
  Proof.
    intros r c nt s0 o1 o2 obj0 H. unfold core.
    pose proof (create_equiv r o1 o2 H) as Hc.
    set (pars := dupdate Nat.eqb (s_pars s0) (snd (fst (top r c nt)))).
    destruct (do_moves_congr (moves r c) pars Hc) as [Hm1 Hm2].
    set (mv1 := do_moves (moves r c) (create topo_vars r o1, pars)) in *.
    set (mv2 := do_moves (moves r c) (create topo_vars r o2, pars)) in *.
    assert (Hst : st_eq (obj0, fst mv1, snd mv1) (obj0, fst mv2, snd mv2)).
    { unfold st_eq; simpl. auto. }
    pose proof (loop_congr r c obj0 Hst) as [Hl1 [Hl2 Hl3]].
    set (lp1 := fold_left (loop_body xrepl new_masses loop_pars r c) obj0 (obj0, fst mv1, snd mv1)) in *.
    set (lp2 := fold_left (loop_body xrepl new_masses loop_pars r c) obj0 (obj0, fst mv2, snd mv2)) in *.
    rewrite <- Hl1, <- Hl3.
    assert (Hk : canon Nat.eqb Nat.ltb (dupdate Nat.eqb (snd (fst lp1)) (fst (fst lp1)))
               = canon Nat.eqb Nat.ltb (dupdate Nat.eqb (snd (fst lp2)) (fst (fst lp1)))).
    { apply (@canon_ext _ _ _ spec _ nat_lt_irrefl nat_lt_trans nat_lt_total).
      apply (@dupdate_congr _ _ _ spec). exact Hl2. }
    rewrite Hk. reflexivity.
  Qed.

  Opaque core.
  (* ---- invariants of reachable worlds ---- *)
  Definition inv_memo (memo : list ((nat * align) * nat)) (heap : list vdict) : Prop :=
    forall r a addr, mlookup memo r a = Some addr ->
      addr < length heap /\ hget heap addr = align_syms r a.
  Definition inv_ntab (bs : list (builder val ntab)) : Prop :=
    forall i B, nth_error bs i = Some B ->
      b_ntab B = register (b_reaction B) (c_flags (b_config B)).

  Lemma nth_error_bput : forall (bs : list (builder val ntab)) i b j B,
    nth_error (bput bs i b) j = Some B -> B = b \/ nth_error bs j = Some B.
  Proof.
    induction bs as [|x bs IH]; intros i b j B H; simpl in H.
    - destruct i; destruct j; discriminate.
    - destruct i as [|i]; destruct j as [|j]; simpl in *; auto.
      + inversion H; auto.
      + eapply IH; eauto.
  Qed.

  Lemma inv_ntab_bput : forall bs i b,
    inv_ntab bs -> b_ntab b = register (b_reaction b) (c_flags (b_config b)) ->
    inv_ntab (bput bs i b).
  Proof.
    intros bs i b H Hb j B Hj. apply nth_error_bput in Hj. destruct Hj as [->|Hj]; eauto.
  Qed.

  Lemma define_symbols_pure : forall sk memo heap r a memo' heap' obj0 alias,
    is_alias (sk_define sk a) = false -> inv_memo memo heap ->
    Define sk memo heap r a = (memo', heap', obj0, alias) ->
    alias = None /\ obj0 = align_syms r a /\ inv_memo memo' heap'.
  Proof.
    intros sk memo heap r a memo' heap' obj0 alias Hna Hinv Hd. unfold define_symbols in Hd.
    destruct (sk_define sk a) eqn:Em; simpl in Hna; try discriminate.
    - inversion Hd; subst; auto.
    - destruct (mlookup memo r a) as [addr|] eqn:El.
      + inversion Hd; subst. destruct (Hinv r a addr El) as [_ Hc]. auto.
      + inversion Hd; subst. simpl. split; auto. split.
        * unfold hget. rewrite app_nth2, Nat.sub_diag by lia. reflexivity.
        * intros r' a' addr' H. simpl in H.
          destruct ((r' =? r) && align_eqb a' a) eqn:Ek.
          -- inversion H; subst. apply andb_prop in Ek. destruct Ek as [Er Ea].
             apply Nat.eqb_eq in Er. apply align_eqb_eq in Ea. subst.
             rewrite app_length. simpl. split; [lia|].
             unfold hget. rewrite app_nth2, Nat.sub_diag by lia. reflexivity.
          -- destruct (Hinv r' a' addr' H) as [Hlt Hc]. rewrite app_length. simpl. split; [lia|].
             unfold hget in *. rewrite app_nth1 by lia. exact Hc.
  Qed.

  Definition inv (w : World) : Prop :=
    inv_memo (w_memo w) (w_heap w) /\ inv_ntab (w_builders w).

  Lemma init_inv : inv Init.
  Proof.
    split.
    - intros r a addr H. discriminate.
    - intros i B H. destruct i; discriminate.
  Qed.

  Lemma sk_no_alias : forall sk a, no_write_through_memo sk = true -> is_alias (sk_define sk a) = false.
  Proof.
    intros sk a H. unfold no_write_through_memo in H.
    apply andb_prop in H. destruct H as [H H3]. apply andb_prop in H. destruct H as [H1 H2].
    destruct a; simpl; apply negb_true_iff; assumption.
  Qed.

  (* memo invariant alone: needs only that nothing writes through the memo *)
  Lemma step_inv_memo : forall sk w o,
    no_write_through_memo sk = true -> inv_memo (w_memo w) (w_heap w) ->
    inv_memo (w_memo (fst (Step sk w o))) (w_heap (fst (Step sk w o))).
  Proof.
    intros sk w o Hsk Hinv.
    destruct o; simpl; try (destruct (nth_error (w_builders w) b); simpl; exact Hinv); try exact Hinv.
    destruct (nth_error (w_builders w) b) as [B|]; simpl; [|exact Hinv].
    destruct (Define sk (w_memo w) (w_heap w) (b_reaction B) (c_align (b_config B)))
      as [[[memo' heap'] obj0] alias] eqn:Ed.
    destruct (define_symbols_pure sk _ _ (sk_no_alias sk _ Hsk) Hinv Ed) as [-> [_ Hi]].
    simpl. exact Hi.
  Qed.

  Lemma step_inv : forall sk w o,
    well_behaved sk = true -> inv w -> inv (fst (Step sk w o)).
  Proof.
    intros sk w o Hwb [Hm Hn].
    assert (Hsk : no_write_through_memo sk = true /\ sk_resets sk = true /\ sk_reregisters sk = true).
    { unfold well_behaved in Hwb. apply andb_prop in Hwb. destruct Hwb as [H H3].
      apply andb_prop in H. tauto. }
    destruct Hsk as [Hnw [Hrs Hrr]].
    split; [apply step_inv_memo; auto|].
    destruct o; simpl.
    - (* NewBuilder *)
      intros i B H. destruct (Nat.lt_ge_cases i (length (w_builders w))) as [Hlt|Hge].
      + rewrite nth_error_app1 in H by auto. eauto.
      + rewrite nth_error_app2 in H by auto.
        destruct (i - length (w_builders w)) as [|n]; simpl in H.
        * inversion H; subst. reflexivity.
        * destruct n; discriminate.
    - destruct (nth_error (w_builders w) b) as [B|] eqn:Eb; simpl; auto.
      apply inv_ntab_bput; auto. simpl. destruct f; simpl; eauto.
    - destruct (nth_error (w_builders w) b) as [B|] eqn:Eb; simpl; auto.
      apply inv_ntab_bput; auto. simpl. rewrite Hrr. reflexivity.
    - destruct (nth_error (w_builders w) b) as [B|] eqn:Eb; simpl; auto.
      apply inv_ntab_bput; auto. simpl. eauto.
    - destruct (nth_error (w_builders w) b) as [B|] eqn:Eb; simpl; auto.
      apply inv_ntab_bput; auto. simpl. eauto.
    - destruct (nth_error (w_builders w) b) as [B|] eqn:Eb; simpl; auto.
      apply inv_ntab_bput; auto. simpl. eauto.
    - destruct (nth_error (w_builders w) b) as [B|] eqn:Eb; simpl; auto.
      apply inv_ntab_bput; auto. simpl. eauto.
    - destruct (nth_error (w_builders w) b) as [B|] eqn:Eb; simpl; auto.
      destruct (Define sk (w_memo w) (w_heap w) (b_reaction B) (c_align (b_config B)))
        as [[[memo' heap'] obj0] alias] eqn:Ed.
      simpl. apply inv_ntab_bput; auto. simpl. eauto.
  Qed.

  Lemma step_pure : forall sk w o r c m,
    well_behaved sk = true -> inv w -> snd (Step sk w o) = Some (r, c, m) -> m = Spec r c.
  Proof.
    intros sk w o r c m Hwb [Hm Hn] Hs.
    assert (Hsk : no_write_through_memo sk = true /\ sk_resets sk = true /\ sk_reregisters sk = true).
    { unfold well_behaved in Hwb. apply andb_prop in Hwb. destruct Hwb as [H H3].
      apply andb_prop in H. tauto. }
    destruct Hsk as [Hnw [Hrs Hrr]].
    destruct o; simpl in Hs;
      try (destruct (nth_error (w_builders w) b); simpl in Hs; discriminate); try discriminate.
    destruct (nth_error (w_builders w) b) as [B|] eqn:Eb; simpl in Hs; [|discriminate].
    destruct (Define sk (w_memo w) (w_heap w) (b_reaction B) (c_align (b_config B)))
      as [[[memo' heap'] obj0] alias] eqn:Ed.
    destruct (define_symbols_pure sk _ _ (sk_no_alias sk _ Hnw) Hm Ed) as [-> [-> Hi]].
    simpl in Hs. inversion Hs; subst. clear Hs.
    rewrite Hrs. rewrite (Hn b B Eb). unfold formulate_spec.
    f_equal. f_equal. apply core_order.
    destruct (same_members order (c_topos (b_config B))) eqn:Es; auto. apply same_members_refl.
  Qed.

  Lemma run_inv : forall sk ops w, well_behaved sk = true -> inv w -> inv (fst (Run sk w ops)).
  Proof.
    induction ops as [|o ops IH]; intros w Hwb Hi; simpl; auto.
    apply IH; auto. apply step_inv; auto.
  Qed.

  Lemma run_pure : forall sk ops w, well_behaved sk = true -> inv w ->
    Forall (fun x => snd x = Spec (fst (fst x)) (snd (fst x))) (snd (Run sk w ops)).
  Proof.
    induction ops as [|o ops IH]; intros w Hwb Hi; simpl; [constructor|].
    pose proof (IH (fst (Step sk w o)) Hwb (@step_inv sk w o Hwb Hi)) as Hrest.
    destruct (snd (Step sk w o)) as [[[r c] m]|] eqn:Es; auto.
    constructor; auto. simpl. eapply step_pure; eauto.
  Qed.

  Lemma run_inv_memo : forall sk ops w, no_write_through_memo sk = true ->
    inv_memo (w_memo w) (w_heap w) ->
    inv_memo (w_memo (fst (Run sk w ops))) (w_heap (fst (Run sk w ops))).
  Proof.
    induction ops as [|o ops IH]; intros w Hsk Hi; simpl; auto.
    apply IH; auto. apply step_inv_memo; auto.
  Qed.

  (* ---- the theorems ---- *)
  Theorem memo_transparent_thm : forall sk ops,
    no_write_through_memo sk = true ->
    let w := fst (Run sk Init ops) in
    (forall r a addr, mlookup (w_memo w) r a = Some addr -> hget (w_heap w) addr = align_syms r a)
    /\ (forall r a memo' heap' obj alias,
          Define sk (w_memo w) (w_heap w) r a = (memo', heap', obj, alias) ->
          obj = align_syms r a).
  Proof.
    intros sk ops Hsk w.
    assert (Hi : inv_memo (w_memo w) (w_heap w)).
    { apply run_inv_memo; auto. intros r a addr H. discriminate. }
    split.
    - intros r a addr H. apply (Hi r a addr H).
    - intros r a memo' heap' obj alias Hd.
      destruct (define_symbols_pure sk _ _ (sk_no_alias sk a Hsk) Hi Hd) as [_ [-> _]]. reflexivity.
  Qed.

  Theorem formulate_pure_thm : forall sk ops,
    well_behaved sk = true ->
    Forall (fun x => snd x = Spec (fst (fst x)) (snd (fst x))) (snd (Run sk Init ops)).
  Proof. intros. apply run_pure; auto. apply init_inv. Qed.

  (* every Formulate on an existing builder does return a model (the log is not empty for
     trivial reasons) and logs the builder's current reaction and configuration *)
  Lemma formulate_logs : forall sk (w : World) b order B,
    nth_error (w_builders w) b = Some B ->
    exists m, snd (Step sk w (Formulate b order)) = Some (b_reaction B, b_config B, m).
  Proof.
    intros sk w b order B H. simpl. rewrite H.
    destruct (Define sk (w_memo w) (w_heap w) (b_reaction B) (c_align (b_config B)))
      as [[[memo' heap'] obj0] alias]. simpl. eauto.
  Qed.
  Transparent core.
End WorldFacts.
