(* DenR.v — real-valued reference semantics of serialised SymPy trees.
   [denR] is total; [wdR] says when the real code computes a finite real with the
   same meaning (no division by zero, no square root / log of a negative real,
   acos argument within [-1,1], a Piecewise branch is taken).  Every analytic
   theorem is stated as  hyps -> wdR ρ e /\ P (denR ρ e)  so Coq's totalised
   [/0 = 0], [sqrt (-1) = 0] cannot make a statement true for the wrong reason. *)
From Coq Require Export Reals Lra.
From AV Require Export Ast.
Open Scope R_scope.

Record env := { sym : string -> R; fn : string -> list R -> R }.

Definition Q2R' (q : Q) : R := IZR (Qnum q) / IZR (Zpos (Qden q)).

Definition powZ (x : R) (z : Z) : R :=
  match z with
  | Z0 => 1
  | Zpos p => x ^ Pos.to_nat p
  | Zneg p => / (x ^ Pos.to_nat p)
  end.

Definition powQ (x : R) (q : Q) : R :=
  match Qden q with
  | 1%positive => powZ x (Qnum q)
  | 2%positive => powZ (sqrt x) (Qnum q)
  | _ => Rpower x (Q2R' q)
  end.

Definition wd_powQ (x : R) (q : Q) : Prop :=
  match Qden q with
  | 1%positive => match Qnum q with Zneg _ => x <> 0 | _ => True end
  | 2%positive => match Qnum q with Zneg _ => 0 < x | _ => 0 <= x end
  | _ => 0 < x
  end.

Definition b2R (b : bool) : R := if b then 1 else 0.
Definition Rltb (a b : R) : bool := if Rlt_dec a b then true else false.
Definition Rleb (a b : R) : bool := if Rle_dec a b then true else false.
Definition Reqb (a b : R) : bool := if Req_EM_T a b then true else false.

(* numpy.arctan2 on reals *)
Definition atan2 (y x : R) : R :=
  if Rlt_dec 0 x then atan (y / x)
  else if Rlt_dec x 0 then (if Rle_dec 0 y then atan (y / x) + PI else atan (y / x) - PI)
  else if Rlt_dec 0 y then PI / 2
  else if Rlt_dec y 0 then - PI / 2
  else 0.

Fixpoint piecewiseR (l : list R) : R :=
  match l with
  | v :: c :: rest => if Req_EM_T c 0 then piecewiseR rest else v
  | _ => 0
  end.

Definition hd0 (l : list R) : R := match l with x :: _ => x | [] => 0 end.
Definition hd1 (l : list R) : R := match l with _ :: y :: _ => y | _ => 0 end.

Definition appR (ρ : env) (h : head) (args : list expr) (vs : list R) : R :=
  match h with
  | HAdd => fold_right Rplus 0 vs
  | HMul => fold_right Rmult 1 vs
  | HPow =>
      match args with
      | [_; Num q] => powQ (hd0 vs) q
      | _ => Rpower (hd0 vs) (hd1 vs)
      end
  | HPi => PI
  | HCos => cos (hd0 vs) | HSin => sin (hd0 vs) | HTan => tan (hd0 vs)
  | HAcos => acos (hd0 vs) | HAsin => asin (hd0 vs) | HAtan => atan (hd0 vs)
  | HAtan2 => atan2 (hd0 vs) (hd1 vs)
  | HAbs => Rabs (hd0 vs)
  | HConj | HRe => hd0 vs
  | HIm => 0
  | HLog => ln (hd0 vs)
  | HExp => exp (hd0 vs)
  | HSign => if Rlt_dec 0 (hd0 vs) then 1 else if Rlt_dec (hd0 vs) 0 then -1 else 0
  | HPiecewise => piecewiseR vs
  | HTrue => 1 | HFalse => 0
  | HLt => b2R (Rltb (hd0 vs) (hd1 vs))
  | HLe => b2R (Rleb (hd0 vs) (hd1 vs))
  | HGt => b2R (Rltb (hd1 vs) (hd0 vs))
  | HGe => b2R (Rleb (hd1 vs) (hd0 vs))
  | HEq => b2R (Reqb (hd0 vs) (hd1 vs))
  | HNe => b2R (negb (Reqb (hd0 vs) (hd1 vs)))
  | HAnd => fold_right Rmult 1 vs
  | HOr => b2R (negb (Reqb (fold_right Rplus 0 (map Rabs vs)) 0))
  | HNot => b2R (Reqb (hd0 vs) 0)
  | HOther f => fn ρ f vs
  | HTuple | HIndexed | HStr | HPair | HI | HNaN | HInf | HNegInf | HZoo => 0
  end.

Fixpoint denR (ρ : env) (e : expr) : R :=
  match e with
  | Sym s => sym ρ s
  | Num q => Q2R' q
  | App h args => appR ρ h args (map (denR ρ) args)
  end.

(* Well-definedness of the head applied to already well-defined arguments. *)
Definition wd_head (h : head) (args : list expr) (vs : list R) : Prop :=
  match h with
  | HPow =>
      match args with
      | [_; Num q] => wd_powQ (hd0 vs) q
      | _ => 0 < hd0 vs
      end
  | HAcos | HAsin => -1 <= hd0 vs <= 1
  | HLog => 0 < hd0 vs
  | HTan => cos (hd0 vs) <> 0
  | HAtan2 => hd0 vs <> 0 \/ hd1 vs <> 0
  | HI | HNaN | HInf | HNegInf | HZoo | HTuple | HIndexed | HStr | HPair => False
  | _ => True
  end.

Fixpoint wdR (ρ : env) (e : expr) : Prop :=
  match e with
  | Sym _ | Num _ => True
  | App HPiecewise args =>
      (fix pw (l : list expr) : Prop :=
         match l with
         | v :: c :: rest =>
             wdR ρ c /\ (if Req_EM_T (denR ρ c) 0 then pw rest else wdR ρ v)
         | _ => False
         end) args
  | App h args =>
      (fix all (l : list expr) : Prop :=
         match l with [] => True | x :: l' => wdR ρ x /\ all l' end) args
      /\ wd_head h args (map (denR ρ) args)
  end.

(* The white-list used to unfold a generated tree into a plain real goal. *)
Ltac unfold_den :=
  cbv [denR wdR appR wd_head map fold_right hd0 hd1 powQ wd_powQ powZ Q2R' Qnum Qden
       Pos.to_nat Pos.iter_op Nat.add Init.Nat.add piecewiseR sym fn].

Ltac unfold_den_in H :=
  cbv [denR wdR appR wd_head map fold_right hd0 hd1 powQ wd_powQ powZ Q2R' Qnum Qden
       Pos.to_nat Pos.iter_op Nat.add Init.Nat.add piecewiseR sym fn] in H.

Lemma b2R_Rleb_true a b : a <= b -> b2R (Rleb a b) = 1.
Proof. intros H; unfold Rleb; destruct (Rle_dec a b); [reflexivity|contradiction]. Qed.
Lemma b2R_Rleb_false a b : b < a -> b2R (Rleb a b) = 0.
Proof. intros H; unfold Rleb; destruct (Rle_dec a b); [lra|reflexivity]. Qed.
Lemma b2R_Rltb_true a b : a < b -> b2R (Rltb a b) = 1.
Proof. intros H; unfold Rltb; destruct (Rlt_dec a b); [reflexivity|contradiction]. Qed.
Lemma b2R_Rltb_false a b : b <= a -> b2R (Rltb a b) = 0.
Proof. intros H; unfold Rltb; destruct (Rlt_dec a b); [lra|reflexivity]. Qed.

(* Environments from association lists (later entries are shadowed by earlier ones). *)
Fixpoint lookup (l : list (string * R)) (s : string) : R :=
  match l with
  | [] => 0
  | (k, v) :: l' => if String.eqb k s then v else lookup l' s
  end.
Definition env_of (l : list (string * R)) : env := {| sym := lookup l; fn := fun _ _ => 0 |}.
Definition env_fn (l : list (string * R)) (f : string -> list R -> R) : env :=
  {| sym := lookup l; fn := f |}.

Ltac unfold_env :=
  cbv [env_of env_fn sym fn lookup String.eqb Ascii.eqb Bool.eqb].

(* full unfolding of [denR]/[wdR] of a closed tree in an association-list environment *)
Ltac den_simpl :=
  cbv [denR wdR appR wd_head map fold_right hd0 hd1 powQ wd_powQ powZ Q2R' Qnum Qden
       Pos.to_nat Pos.iter_op Nat.add Init.Nat.add piecewiseR
       env_of env_fn sym fn lookup String.eqb Ascii.eqb Bool.eqb].
Ltac den_simpl_in H :=
  cbv [denR wdR appR wd_head map fold_right hd0 hd1 powQ wd_powQ powZ Q2R' Qnum Qden
       Pos.to_nat Pos.iter_op Nat.add Init.Nat.add piecewiseR
       env_of env_fn sym fn lookup String.eqb Ascii.eqb Bool.eqb] in H.
