(** PyTopo.v — object model for the fail-closed translator bridge/trans_helpers.py (MODEL ONLY).

    The translator reads the CURRENT source text of small pure helpers of ampform
    (helicity/decay.py, helicity/align/_spin.py, kinematics/lorentz.py, sympy/__init__.py) and
    emits Gallina definitions over the primitives below.  What is modelled BY HAND here (and tied
    by the correspondence run of bridge/corr_helpers.py, not verified):

    * Python exceptions: one error value per exception class the helpers can raise;
    * a Python [set] of ints: a strictly increasing list ([set_of]); iterating a set with more than
      one element is refused by the model ([ENondet]) because its order is an implementation detail;
    * the qrules [Topology] API (external library): [edges[i]], [get_edge_ids_outgoing_from_node],
      [get_edge_ids_ingoing_to_node], [get_originating_final_state_edge_ids], [incoming_edge_ids],
      [outgoing_edge_ids], [nodes] over the raw topology record [Kin.rtopo];
    * numbers of [create_spin_range] (float / Decimal): exact integers in units of 1/u.  Every value
      the loop produces from a dyadic input is exactly representable in both types. *)
From Coq Require Import ZArith List Bool.
From AV Require Import Kin.
Import ListNotations.
Open Scope Z_scope.

Inductive perr := EKey | EValue | EStop | EIndex | ENondet | EFuel.
Inductive res (A : Type) := Ok (a : A) | Err (e : perr).
Arguments Ok {A} a.
Arguments Err {A} e.

Definition bind {A B : Type} (r : res A) (f : A -> res B) : res B :=
  match r with Ok a => f a | Err e => Err e end.

(* ------------------------------------------------------------------ python lists / sets *)
Fixpoint dedup_sorted (l : list Z) : list Z :=
  match l with
  | [] => []
  | x :: t => match t with
              | [] => [x]
              | y :: _ => if x =? y then dedup_sorted t else x :: dedup_sorted t
              end
  end.
Definition set_of (l : list Z) : list Z := dedup_sorted (Kin.sort l).

Definition memZ (x : Z) (l : list Z) : bool := existsb (Z.eqb x) l.

(* list.remove(x) / set.remove(x): first occurrence; ValueError / KeyError when absent *)
Fixpoint py_remove (x : Z) (l : list Z) : res (list Z) :=
  match l with
  | [] => Err EValue
  | y :: t => if y =? x then Ok t else bind (py_remove x t) (fun t' => Ok (y :: t'))
  end.

(* next(iter(s)) for a set s *)
Definition py_next_iter (l : list Z) : res Z :=
  match l with
  | [] => Err EStop
  | [x] => Ok x
  | _ :: _ :: _ => Err ENondet
  end.

(* t[0] for a tuple t built from a set *)
Definition py_first_of_set (l : list Z) : res Z :=
  match l with
  | [] => Err EIndex
  | [x] => Ok x
  | _ :: _ :: _ => Err ENondet
  end.

Definition lenZ (l : list Z) : Z := Z.of_nat (length l).

(* tuple(a) > tuple(b) *)
Definition tuple_gtb (a b : list Z) : bool := Kin.lex_ltb b a.

(* ------------------------------------------------------------------ qrules Topology API *)
Fixpoint topo_edge_in (es : list redge) (i : Z) : res redge :=
  match es with
  | [] => Err EKey
  | e :: t => if re_id e =? i then Ok e else topo_edge_in t i
  end.
Definition topo_edge (t : rtopo) (i : Z) : res redge := topo_edge_in (rt_edges t) i.

Definition topo_outgoing (t : rtopo) (n : Z) : list Z :=
  set_of (map re_id (outgoing_from (rt_edges t) n)).
Definition topo_ingoing (t : rtopo) (n : Z) : list Z :=
  set_of (map re_id (ingoing_to (rt_edges t) n)).
Definition topo_incoming_edge_ids (t : rtopo) : list Z :=
  set_of (map re_id (filter (fun e => oZ_eqb (re_orig e) None) (rt_edges t))).
Definition topo_outgoing_edge_ids (t : rtopo) : list Z :=
  set_of (map re_id (filter (fun e => oZ_eqb (re_end e) None) (rt_edges t))).
Definition topo_nodes (t : rtopo) : list Z := rt_nodes t.

(* get_originating_final_state_edge_ids: breadth-first walk, level by level *)
Definition next_level (t : rtopo) (i : Z) : list Z :=
  match topo_edge t i with
  | Ok e => match re_end e with Some n => topo_outgoing t n | None => [] end
  | Err _ => []
  end.
Fixpoint orig_fs (fuel : nat) (t : rtopo) (frontier : list Z) : list Z :=
  match fuel with
  | O => []
  | S f =>
      match frontier with
      | [] => []
      | _ =>
          let fs := topo_outgoing_edge_ids t in
          filter (fun i => memZ i fs) frontier
          ++ orig_fs f t (flat_map (next_level t) (filter (fun i => negb (memZ i fs)) frontier))
      end
  end.
Definition topo_originating_fs (t : rtopo) (n : Z) : list Z :=
  set_of (orig_fs (S (length (rt_edges t))) t (topo_outgoing t n)).

(* ------------------------------------------------------------------ loops *)
(* for x in xs: body(x)   where body only raises or falls through *)
Fixpoint for_unit {A : Type} (xs : list A) (body : A -> res unit) : res unit :=
  match xs with
  | [] => Ok tt
  | x :: t => bind (body x) (fun _ => for_unit t body)
  end.

(* ------------------------------------------------------------------ comparing results (correspondence run) *)
Definition perr_eqb (a b : perr) : bool :=
  match a, b with
  | EKey, EKey | EValue, EValue | EStop, EStop | EIndex, EIndex | ENondet, ENondet | EFuel, EFuel => true
  | _, _ => false
  end.
Definition res_eqb {A : Type} (eqb : A -> A -> bool) (a b : res A) : bool :=
  match a, b with
  | Ok x, Ok y => eqb x y
  | Err e, Err e' => perr_eqb e e'
  | _, _ => false
  end.
Definition unit_eqb (_ _ : unit) : bool := true.

(* s1 - s2 for sets *)
Definition set_diff (a b : list Z) : list Z := filter (fun x => negb (memZ x b)) a.
