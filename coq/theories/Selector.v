(* Selector.v -- hand-written Gallina model (plain data, no proofs) of how ampform attaches
   dynamics to decay nodes:

     ampform/helicity/decay.py      StateWithID, TwoBodyDecay.from_transition,
                                    is_opposite_helicity_state, determine_attached_final_state
     ampform/kinematics/lorentz.py  get_invariant_mass_symbol
     ampform/helicity/__init__.py   DynamicsSelector.__init__/assign/__getitem__,
                                    __formulate_dynamics (parameter-default collision rule),
                                    _generate_kinematic_variable_set
     ampform/dynamics/builder.py    parameter names/defaults of the library builders

   The model is tied to the code by the correspondence run of ./check C13 (runners/C13.py,
   bridge/corr_C13.py): the same reactions and assignment histories are executed by the
   implementation and by [vm_compute] on these definitions and every observable is diffed.
   Proofs live in Selector_proofs.v. *)
From Coq Require Import String List ZArith QArith Bool Arith DecimalString.
Import ListNotations.
Local Open Scope string_scope.

(* ------------------------------------------------------------------ data *)

(* qrules.particle.Particle; [p_rest] is an injective rendering of the remaining attrs fields
   (pid, charge, isospin, ...) so that structural equality coincides with Python's ==.
   spin is stored doubled. mass/width are the exact rational values of the Python floats. *)
Record particle := mkParticle {
  p_name : string; p_latex : option string; p_mass : Q; p_width : Q; p_spin2 : nat;
  p_rest : string }.

(* qrules.transition.State (spin projection doubled) and ampform's StateWithID *)
Record state := mkState { s_part : particle; s_proj2 : Z }.
Record swid := mkSwid { w_id : Z; w_state : state }.

(* qrules InteractionProperties: l_magnitude and an injective rendering of the rest *)
Record interaction := mkInt { i_l : option nat; i_rest : string }.

Record decay := mkDecay { d_parent : swid; d_c1 : swid; d_c2 : swid; d_int : interaction }.

(* qrules Topology edge and a FrozenTransition: nodes in Python's iteration order *)
Record edge := mkEdge { e_id : Z; e_from : option Z; e_to : option Z }.
Record transition := mkTr {
  t_nodes : list Z; t_edges : list edge;
  t_states : list (Z * state); t_ints : list (Z * interaction) }.

Definition builder := nat.
Definition default_builder : builder := 0%nat.          (* create_non_dynamic *)

Inductive err := ENotImplemented | EValue | EKey.

(* ------------------------------------------------------------ equalities *)

(* short-circuit conjunction: [andb] is strict under vm_compute *)
Notation "a &&& b" := (if a then b else false) (at level 40, left associativity).

(* Boolean structural equalities (= Python's attrs-generated __eq__ on the serialised data);
   cheap, discriminating fields first.  Their correctness lemmas are in Selector_proofs.v. *)
Definition Q_eqb (a b : Q) : bool := Z.eqb (Qnum a) (Qnum b) &&& Pos.eqb (Qden a) (Qden b).
Definition ostring_eqb (a b : option string) : bool :=
  match a, b with Some x, Some y => String.eqb x y | None, None => true | _, _ => false end.
Definition onat_eqb (a b : option nat) : bool :=
  match a, b with Some x, Some y => Nat.eqb x y | None, None => true | _, _ => false end.
Definition oZ_eqb (a b : option Z) : bool :=
  match a, b with Some x, Some y => Z.eqb x y | None, None => true | _, _ => false end.
Definition particle_eqb (a b : particle) : bool :=
  String.eqb (p_name a) (p_name b) &&& Nat.eqb (p_spin2 a) (p_spin2 b)
  &&& Q_eqb (p_mass a) (p_mass b) &&& Q_eqb (p_width a) (p_width b)
  &&& ostring_eqb (p_latex a) (p_latex b) &&& String.eqb (p_rest a) (p_rest b).
Definition state_eqb (a b : state) : bool :=
  Z.eqb (s_proj2 a) (s_proj2 b) &&& particle_eqb (s_part a) (s_part b).
Definition swid_eqb (a b : swid) : bool :=
  Z.eqb (w_id a) (w_id b) &&& state_eqb (w_state a) (w_state b).
Definition interaction_eqb (a b : interaction) : bool :=
  onat_eqb (i_l a) (i_l b) &&& String.eqb (i_rest a) (i_rest b).
Definition decay_eqb (a b : decay) : bool :=
  Z.eqb (w_id (d_parent a)) (w_id (d_parent b)) &&& Z.eqb (w_id (d_c1 a)) (w_id (d_c1 b))
  &&& Z.eqb (w_id (d_c2 a)) (w_id (d_c2 b)) &&& interaction_eqb (d_int a) (d_int b)
  &&& swid_eqb (d_c1 a) (d_c1 b) &&& swid_eqb (d_c2 a) (d_c2 b) &&& swid_eqb (d_parent a) (d_parent b).

Fixpoint list_eqb {X} (f : X -> X -> bool) (l l' : list X) : bool :=
  match l, l' with
  | [], [] => true
  | x :: r, y :: r' => f x y &&& list_eqb f r r'
  | _, _ => false
  end.

(* --------------------------------------------------- topology and decays *)

Definition in_edges (t : transition) (n : Z) : list edge :=
  filter (fun e => oZ_eqb (e_to e) (Some n)) (t_edges t).
Definition out_edges (t : transition) (n : Z) : list edge :=
  filter (fun e => oZ_eqb (e_from e) (Some n)) (t_edges t).
Definition find_edge (t : transition) (i : Z) : option edge :=
  find (fun e => Z.eqb (e_id e) i) (t_edges t).

Fixpoint insertZ (x : Z) (l : list Z) : list Z :=
  match l with
  | [] => [x]
  | y :: r => if Z.leb x y then x :: l else y :: insertZ x r
  end.
Definition sortZ (l : list Z) : list Z := fold_right insertZ [] l.

(* determine_attached_final_state: [state_id] itself for a final-state edge, else the sorted
   final-state edges below the edge's ending node.  Fuel = number of edges suffices for a tree
   (checked per transition by [wf_transition]). *)
Fixpoint leaves_fuel (fuel : nat) (t : transition) (i : Z) : list Z :=
  match fuel with
  | O => [i]
  | S f =>
    match find_edge t i with
    | None => [i]
    | Some e =>
      match e_to e with
      | None => [i]
      | Some n => sortZ (flat_map (fun e' => leaves_fuel f t (e_id e')) (out_edges t n))
      end
    end
  end.
Definition leaves (t : transition) (i : Z) : list Z := leaves_fuel (length (t_edges t)) t i.

(* Python tuple comparison  tuple(a) > tuple(b) *)
Fixpoint lex_gt (a b : list Z) : bool :=
  match a, b with
  | [], _ => false
  | _ :: _, [] => true
  | x :: a', y :: b' => if Z.ltb y x then true else if Z.ltb x y then false else lex_gt a' b'
  end.

Fixpoint assocZ {V} (l : list (Z * V)) (k : Z) : option V :=
  match l with
  | [] => None
  | (k', v) :: r => if Z.eqb k' k then Some v else assocZ r k
  end.

Definition swid_of (t : transition) (i : Z) : option swid :=
  match assocZ (t_states t) i with Some s => Some (mkSwid i s) | None => None end.

(* TwoBodyDecay.from_transition: one ingoing, two outgoing edges (else ValueError); the first
   child is the one that is NOT the opposite-helicity state, i.e. whose attached final-state
   tuple is the smaller one. *)
Definition from_transition (t : transition) (n : Z) : err + decay :=
  match in_edges t n, out_edges t n with
  | [p], [a; b] =>
    let '(c1, c2) := if lex_gt (leaves t (e_id a)) (leaves t (e_id b)) then (b, a) else (a, b) in
    match swid_of t (e_id p), swid_of t (e_id c1), swid_of t (e_id c2), assocZ (t_ints t) n with
    | Some sp, Some s1, Some s2, Some i => inr (mkDecay sp s1 s2 i)
    | _, _, _, _ => inl EKey
    end
  | _, _ => inl EValue
  end.

Definition parent_particle (d : decay) : particle := s_part (w_state (d_parent d)).
Definition parent_name (d : decay) : string := p_name (parent_particle d).

(* --------------------------------------------------------- variable set *)

Definition string_of_Z (z : Z) : string := NilZero.string_of_int (Z.to_int z).

(* get_invariant_mass_symbol: "m_" + concatenated sorted final-state ids *)
Definition mass_name (ls : list Z) : string :=
  "m_" ++ String.concat "" (map string_of_Z (sortZ ls)).

Record varset := mkVarset { v_m : string; v_ma : string; v_mb : string; v_L : option nat }.

(* angular momentum: the interaction's l_magnitude, else the parent spin if it is an integer *)
Definition angular_momentum (i : interaction) (parent : particle) : option nat :=
  match i_l i with
  | Some l => Some l
  | None => if Nat.even (p_spin2 parent) then Some (Nat.div2 (p_spin2 parent)) else None
  end.

Definition varset_of_parts (lp l1 l2 : list Z) (i : interaction) (parent : particle) : varset :=
  mkVarset (mass_name lp) (mass_name l1) (mass_name l2) (angular_momentum i parent).

(* _generate_kinematic_variable_set(transition, node_id) *)
Definition varset_of (t : transition) (d : decay) : varset :=
  varset_of_parts (leaves t (w_id (d_parent d))) (leaves t (w_id (d_c1 d)))
                  (leaves t (w_id (d_c2 d))) (d_int d) (parent_particle d).

(* ------------------------------------------------------ DynamicsSelector *)

Definition choices := list (decay * builder).

Fixpoint lookup (ch : choices) (d : decay) : option builder :=
  match ch with
  | [] => None
  | (d', b) :: r => if decay_eqb d' d then Some b else lookup r d
  end.

(* dict[d] = b : overwrite in place, or append a new key *)
Fixpoint set_key (ch : choices) (d : decay) (b : builder) : choices :=
  match ch with
  | [] => [(d, b)]
  | (d', b') :: r => if decay_eqb d' d then (d', b) :: r else (d', b') :: set_key r d b
  end.

(* dict.setdefault(d, b) *)
Definition set_default (ch : choices) (d : decay) (b : builder) : choices :=
  match lookup ch d with Some _ => ch | None => (ch ++ [(d, b)])%list end.

Definition keys (ch : choices) : list decay := map fst ch.

(* all node decays of a transition, in node order; first failure wins *)
Fixpoint decays_of_nodes (t : transition) (ns : list Z) : err + list decay :=
  match ns with
  | [] => inr []
  | n :: r =>
    match from_transition t n with
    | inl e => inl e
    | inr d => match decays_of_nodes t r with inl e => inl e | inr ds => inr (d :: ds) end
    end
  end.
Definition decays_of (t : transition) : err + list decay := decays_of_nodes t (t_nodes t).

Fixpoint decays_of_all (ts : list transition) : err + list decay :=
  match ts with
  | [] => inr []
  | t :: r =>
    match decays_of t with
    | inl e => inl e
    | inr ds => match decays_of_all r with inl e => inl e | inr ds' => inr (ds ++ ds')%list end
    end
  end.

(* A reaction as the selector sees it: each transition with the graphs that
   _perform_combinatorics returns for it (data taken from the implementation). *)
Definition reaction := list (transition * list transition).

(* DynamicsSelector.__init__ of the pinned tree: the reaction's own transitions only *)
Definition init_pinned (r : reaction) : err + choices :=
  match decays_of_all (map fst r) with
  | inl e => inl e
  | inr ds => inr (fold_left (fun ch d => set_key ch d default_builder) ds [])
  end.

(* DynamicsSelector.__init__ now: then setdefault for the identical-particle permutations *)
Definition init (r : reaction) : err + choices :=
  match init_pinned r with
  | inl e => inl e
  | inr ch0 =>
    match decays_of_all (flat_map snd r) with
    | inl e => inl e
    | inr ds => inr (fold_left (fun ch d => set_default ch d default_builder) ds ch0)
    end
  end.

(* The argument of DynamicsSelector.assign, by registered dispatch type.  [SelOther] stands for
   every other type (int, float, list, None, State, ...); [SelBadTuple] for a tuple that is not
   (StateTransition, int). *)
Inductive selection :=
| SelStr (s : string)
| SelParticle (p : particle)
| SelDecay (d : decay)
| SelNode (t : transition) (n : Z)
| SelBadTuple
| SelOther.

Definition assign_str (ch : choices) (s : string) (b : builder) : choices * bool :=
  (map (fun kv => if String.eqb (parent_name (fst kv)) s then (fst kv, b) else kv) ch,
   existsb (fun kv => String.eqb (parent_name (fst kv)) s) ch).

(* result: new choices and whether a resonance of that name was found (else a warning is
   logged); errors leave the selector untouched *)
Definition assign (ch : choices) (sel : selection) (b : builder) : err + (choices * bool) :=
  match sel with
  | SelStr s => inr (assign_str ch s b)
  | SelParticle p => inr (assign_str ch (p_name p) b)
  | SelDecay d => inr (set_key ch d b, true)
  | SelNode t n =>
    match from_transition t n with
    | inl e => inl e
    | inr d => inr (set_key ch d b, true)
    end
  | SelBadTuple => inl ENotImplemented
  | SelOther => inl ENotImplemented
  end.

Definition step (ch : choices) (sb : selection * builder) : choices :=
  match assign ch (fst sb) (snd sb) with inl _ => ch | inr (ch', _) => ch' end.

Definition run_history (ch : choices) (h : list (selection * builder)) : choices :=
  fold_left step h ch.

(* the selector after every step, with the step's outcome (for the correspondence run) *)
Fixpoint trace_history (ch : choices) (h : list (selection * builder))
  : list ((err + bool) * choices) :=
  match h with
  | [] => []
  | sb :: r =>
    let res := match assign ch (fst sb) (snd sb) with inl e => inl e | inr (_, f) => inr f end in
    (res, step ch sb) :: trace_history (step ch sb) r
  end.

(* ---------------------------------------------------- parameter defaults *)

Definition params := list (string * Q).

Fixpoint plookup (ds : params) (k : string) : option Q :=
  match ds with
  | [] => None
  | (k', v) :: r => if String.eqb k' k then Some v else plookup r k
  end.

Fixpoint pset (ds : params) (k : string) (v : Q) : params :=
  match ds with
  | [] => [(k, v)]
  | (k', v') :: r => if String.eqb k' k then (k', v) :: r else (k', v') :: pset r k v
  end.

(* a logged warning: parameter, new value, previous value *)
Definition warning := (string * Q * Q)%type.

(* the loop body of __formulate_dynamics: later value overwrites; warn when it differs *)
Definition add_param (st : params * list warning) (kv : string * Q) : params * list warning :=
  let '(ds, ws) := st in
  let '(k, v) := kv in
  match plookup ds k with
  | Some old => if Q_eqb v old then (pset ds k v, ws) else (pset ds k v, (ws ++ [(k, v, old)])%list)
  | None => (pset ds k v, ws)
  end.

Definition add_params (st : params * list warning) (ps : params) : params * list warning :=
  fold_left add_param ps st.

(* -------------------------------------------------- the library builders *)

(* resonance.latex or resonance.name *)
Definition identifier (p : particle) : string :=
  match p_latex p with
  | Some s => if String.eqb s "" then p_name p else s
  | None => p_name p
  end.

Definition mass_par (p : particle) : string := "m_{" ++ identifier p ++ "}".
Definition width_par (p : particle) : string := "\Gamma_{" ++ identifier p ++ "}".
Definition radius_par (p : particle) : string := "d_{" ++ identifier p ++ "}".

Definition B_NON_DYNAMIC : builder := 0%nat.   (* create_non_dynamic *)
Definition B_BW : builder := 1%nat.            (* create_relativistic_breit_wigner *)
Definition B_BW_FF : builder := 2%nat.         (* create_relativistic_breit_wigner_with_ff *)
Definition B_ANALYTIC : builder := 3%nat.      (* create_analytic_breit_wigner *)
Definition B_FF : builder := 4%nat.            (* create_non_dynamic_with_ff *)
Definition FIRST_CUSTOM : builder := 5%nat.

(* parameter defaults returned by builder b for (resonance, variable set), in dict order;
   None = the builder raises ValueError (form factor without angular momentum) *)
Definition lib_params (b : builder) (p : particle) (vs : varset) : option params :=
  match b with
  | 0%nat => Some []
  | 1%nat => Some [(mass_par p, p_mass p); (width_par p, p_width p)]
  | 2%nat | 3%nat =>
    match v_L vs with
    | Some _ => Some [(mass_par p, p_mass p); (width_par p, p_width p); (radius_par p, 1%Q)]
    | None => None
    end
  | 4%nat => match v_L vs with Some _ => Some [(radius_par p, 1%Q)] | None => None end
  | _ => Some []
  end.

(* custom (harness) builders: a table  builder -> list of entries.  An entry is a global
   parameter name with a fixed value, a per-resonance name "<base>_{identifier}" with a fixed
   value, or a per-resonance name carrying the tabulated mass. *)
Inductive centry :=
| CGlobal (name : string) (v : Q)
| CPerRes (base : string) (v : Q)
| CMass (base : string).

Definition centry_param (p : particle) (c : centry) : string * Q :=
  match c with
  | CGlobal n v => (n, v)
  | CPerRes b v => (b ++ "_{" ++ identifier p ++ "}", v)
  | CMass b => (b ++ "_{" ++ identifier p ++ "}", p_mass p)
  end.

Fixpoint assocN {V} (l : list (nat * V)) (k : nat) : option V :=
  match l with
  | [] => None
  | (k', v) :: r => if Nat.eqb k' k then Some v else assocN r k
  end.

Definition ctable := list (nat * list centry).

Definition all_params (ct : ctable) (b : builder) (p : particle) (vs : varset) : option params :=
  match assocN ct b with
  | Some es => Some (map (centry_param p) es)
  | None => lib_params b p vs
  end.

(* ------------------------------------------------------------ formulation *)

(* what one node contributes: None when the decay is not a selector key (factor 1, no
   parameters), else the builder with the resonance and the node's variable set *)
Definition node_call := option (builder * particle * varset).

Definition node_dynamics (ch : choices) (t : transition) (n : Z) : err + node_call :=
  match from_transition t n with
  | inl e => inl e
  | inr d =>
    match lookup ch d with
    | None => inr None
    | Some b => inr (Some (b, parent_particle d, varset_of t d))
    end
  end.

Fixpoint chain_calls (ch : choices) (t : transition) (ns : list Z) : err + list node_call :=
  match ns with
  | [] => inr []
  | n :: r =>
    match node_dynamics ch t n with
    | inl e => inl e
    | inr c => match chain_calls ch t r with inl e => inl e | inr cs => inr (c :: cs) end
    end
  end.

Fixpoint all_calls (ch : choices) (chains : list transition) : err + list (list node_call) :=
  match chains with
  | [] => inr []
  | t :: r =>
    match chain_calls ch t (t_nodes t) with
    | inl e => inl e
    | inr cs => match all_calls ch r with inl e => inl e | inr css => inr (cs :: css) end
    end
  end.

(* parameter_defaults contributions of the dynamics, in formulation order *)
Fixpoint collect_params (P : builder -> particle -> varset -> option params)
         (calls : list node_call) (st : params * list warning) : err + (params * list warning) :=
  match calls with
  | [] => inr st
  | None :: r => collect_params P r st
  | Some (b, p, vs) :: r =>
    match P b p vs with
    | None => inl EValue
    | Some ps => collect_params P r (add_params st ps)
    end
  end.

(* formulate(): the builder calls of every chain (in formulation order) and the resulting
   dynamics part of parameter_defaults with the warnings logged on the way *)
Definition formulate (P : builder -> particle -> varset -> option params)
           (ch : choices) (chains : list transition)
  : err + (list (list node_call) * params * list warning) :=
  match all_calls ch chains with
  | inl e => inl e
  | inr css =>
    match collect_params P (concat css) ([], []) with
    | inl e => inl e
    | inr (ds, ws) => inr (css, ds, ws)
    end
  end.

(* --------------------------------------------------- chain amplitude algebra *)

Section Amplitude.
  Variable A : Type.
  Variable mul : A -> A -> A.
  Variable one : A.
  (* any builder: the expression it returns for (resonance, variable set) *)
  Variable dynf : builder -> particle -> varset -> A.

  Definition prodA (l : list A) : A := fold_right mul one l.

  Definition call_factor (c : node_call) : A :=
    match c with
    | None => one
    | Some (b, p, vs) => dynf b p vs
    end.

  (* __formulate_sequential_decay:
       sequential = reduce(operator.mul, [partial(n) ...])     -- left-nested product
       expression = sequential | coefficient * sequential ; expression *= prefactor (if any)
     and _formulate_partial_decay: partial(n) = base(n) * dynamics(n), where [base] is the
     node's factor without dynamics (Wigner D, Clebsch-Gordan, helicity coupling). *)
  Definition reduce_left (l : list A) : A :=
    match l with
    | [] => one
    | x :: r => fold_left mul r x
    end.

  Definition wrap (coef pref : option A) (seq : A) : A :=
    let e := match coef with Some c => mul c seq | None => seq end in
    match pref with Some p => mul e p | None => e end.

  Definition amp_with_dynamics (coef pref : option A) (base : list A) (calls : list node_call) : A :=
    wrap coef pref
      (reduce_left (map (fun bc => mul (fst bc) (call_factor (snd bc))) (combine base calls))).

  Definition amp_without_dynamics (coef pref : option A) (base : list A) : A :=
    wrap coef pref (reduce_left base).
End Amplitude.

(* -------------------------------------------------------- well-formedness *)

Fixpoint nodupZ (l : list Z) : bool :=
  match l with
  | [] => true
  | x :: r => negb (existsb (Z.eqb x) r) && nodupZ r
  end.

(* checked by vm_compute on every corpus transition in the correspondence run:
   edge ids are unique, every node is a 1-to-2 decay with states and interaction present,
   the fuel of [leaves] is not exhausted (one more unit changes nothing), and the two
   children of every node have different attached final states. *)
Definition wf_transition (t : transition) : bool :=
  nodupZ (map e_id (t_edges t))
  && forallb (fun n => match from_transition t n with inr _ => true | inl _ => false end) (t_nodes t)
  && forallb (fun e => if list_eq_dec Z.eq_dec (leaves_fuel (length (t_edges t)) t (e_id e))
                                       (leaves_fuel (S (length (t_edges t))) t (e_id e))
                       then true else false) (t_edges t)
  && forallb (fun n => match out_edges t n with
                       | [a; b] => negb (if list_eq_dec Z.eq_dec (leaves t (e_id a)) (leaves t (e_id b))
                                         then true else false)
                       | _ => false end) (t_nodes t).

(* ------------------------------------------- chains are among the registered graphs *)

Definition edge_eqb (a b : edge) : bool :=
  Z.eqb (e_id a) (e_id b) &&& oZ_eqb (e_from a) (e_from b) &&& oZ_eqb (e_to a) (e_to b).
Definition transition_eqb (a b : transition) : bool :=
  list_eqb Z.eqb (t_nodes a) (t_nodes b)
  &&& list_eqb edge_eqb (t_edges a) (t_edges b)
  &&& list_eqb (fun x y => Z.eqb (fst x) (fst y) &&& Z.eqb (s_proj2 (snd x)) (s_proj2 (snd y)))
              (t_states a) (t_states b)
  &&& list_eqb (fun x y => Z.eqb (fst x) (fst y) &&& interaction_eqb (snd x) (snd y))
              (t_ints a) (t_ints b)
  &&& list_eqb (fun x y => Z.eqb (fst x) (fst y) &&& state_eqb (snd x) (snd y))
              (t_states a) (t_states b).

(* every formulated chain is one of the graphs the selector registered (checked by vm_compute
   in the correspondence run; hypothesis of the key-coverage theorems) *)
Definition chains_covered (r : reaction) (chains : list transition) : bool :=
  forallb (fun t => existsb (transition_eqb t) (flat_map snd r)) chains.
