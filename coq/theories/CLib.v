(* CLib.v — complex helpers missing from Coquelicot: ring-friendly numerals, principal
   square root and logarithm, exponential; lemmas for real arguments. *)
From Coq Require Import Reals Lra ZArith Psatz.
From AV Require Export DenR.
From Coquelicot Require Export Complex.
Open Scope C_scope.

(* integers as ring expressions over 1, so that [ring]/[field] on C decide numeric identities *)
Fixpoint CofPos (p : positive) : C :=
  match p with
  | xH => 1
  | xO p' => (1 + 1) * CofPos p'
  | xI p' => 1 + (1 + 1) * CofPos p'
  end.
Definition CofZ (z : Z) : C :=
  match z with Z0 => 0 | Zpos p => CofPos p | Zneg p => - CofPos p end.

Lemma RtoC_2 : RtoC 2 = 1 + 1.
Proof. unfold RtoC, Cplus; cbn [fst snd]. f_equal; lra. Qed.
Lemma CofPos_R p : CofPos p = RtoC (IZR (Zpos p)).
Proof.
  induction p as [p IH|p IH|]; cbn [CofPos].
  - rewrite IH. rewrite Pos2Z.inj_xI, plus_IZR, mult_IZR. rewrite RtoC_plus, RtoC_mult, RtoC_2. ring.
  - rewrite IH. rewrite Pos2Z.inj_xO, mult_IZR, RtoC_mult, RtoC_2. ring.
  - reflexivity.
Qed.
Lemma CofZ_R z : CofZ z = RtoC (IZR z).
Proof.
  destruct z as [|p|p]; cbn [CofZ].
  - reflexivity.
  - apply CofPos_R.
  - rewrite CofPos_R. rewrite <- RtoC_opp. f_equal.
Qed.

Definition Cpow_pos (z : C) (p : positive) : C := Pos.iter_op Cmult p z.
Definition CpowZ (z : C) (n : Z) : C :=
  match n with Z0 => 1 | Zpos p => Cpow_pos z p | Zneg p => / Cpow_pos z p end.

(* principal square root: Re >= 0, and on the negative real axis +i sqrt(-x) *)
Definition Csqrt (z : C) : C :=
  let r := Cmod z in
  (sqrt ((r + fst z) / 2),
   if Rlt_dec (snd z) 0 then (- sqrt ((r - fst z) / 2))%R else sqrt ((r - fst z) / 2)).

Lemma Cmod_R_abs x : Cmod (RtoC x) = Rabs x.
Proof. apply Cmod_R. Qed.

Lemma Csqrt_nonneg x : (0 <= x)%R -> Csqrt (RtoC x) = RtoC (sqrt x).
Proof.
  intros Hx. unfold Csqrt. rewrite Cmod_R, Rabs_pos_eq by exact Hx. cbn [fst snd RtoC].
  destruct (Rlt_dec 0 0) as [H|_]; [lra|].
  replace ((x + x) / 2)%R with x by field. replace ((x - x) / 2)%R with 0%R by field.
  rewrite sqrt_0. reflexivity.
Qed.
Lemma Csqrt_neg x : (x < 0)%R -> Csqrt (RtoC x) = Ci * RtoC (sqrt (- x)).
Proof.
  intros Hx. unfold Csqrt. rewrite Cmod_R, Rabs_left by exact Hx. cbn [fst snd RtoC].
  destruct (Rlt_dec 0 0) as [H|_]; [lra|].
  replace ((- x + x) / 2)%R with 0%R by field. replace ((- x - x) / 2)%R with (- x)%R by field.
  rewrite sqrt_0. unfold Ci, Cmult, RtoC. cbn [fst snd]. f_equal; ring.
Qed.

Definition Cexp (z : C) : C := (exp (fst z) * cos (snd z), exp (fst z) * sin (snd z))%R.
Definition Carg (z : C) : R := atan2 (snd z) (fst z).
Definition Clog (z : C) : C := (ln (Cmod z), Carg z).

Lemma Clog_pos x : (0 < x)%R -> Clog (RtoC x) = RtoC (ln x).
Proof.
  intros Hx. unfold Clog, Carg. rewrite Cmod_R, Rabs_pos_eq by lra. cbn [fst snd RtoC].
  unfold atan2. destruct (Rlt_dec 0 x) as [_|N]; [|lra].
  replace (0 / x)%R with 0%R by (field; lra). rewrite atan_0. reflexivity.
Qed.
Lemma Clog_neg x : (x < 0)%R -> Clog (RtoC x) = (ln (- x), PI).
Proof.
  intros Hx. unfold Clog, Carg. rewrite Cmod_R, Rabs_left by lra. cbn [fst snd RtoC].
  unfold atan2. destruct (Rlt_dec 0 x) as [H|_]; [lra|].
  destruct (Rlt_dec x 0) as [_|N]; [|lra]. destruct (Rle_dec 0 0) as [_|N]; [|lra].
  replace (0 / x)%R with 0%R by (field; lra). rewrite atan_0. f_equal. ring.
Qed.

Lemma Ci2 : Ci * Ci = - 1.
Proof. unfold Ci, Cmult, Copp, RtoC. cbn [fst snd]. f_equal; ring. Qed.
Lemma RtoC_neq0 x : x <> 0%R -> RtoC x <> 0.
Proof. intros H E. apply RtoC_inj in E. contradiction. Qed.
Lemma C_neq0_re (z : C) : fst z <> 0%R -> z <> 0.
Proof. intros H E. rewrite E in H. cbn in H. lra. Qed.
Lemma C_neq0_im (z : C) : snd z <> 0%R -> z <> 0.
Proof. intros H E. rewrite E in H. cbn in H. lra. Qed.
