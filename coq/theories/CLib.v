(* CLib.v — complex helpers missing from Coquelicot: ring-friendly numerals, principal
   square root and logarithm, exponential; lemmas for real arguments. *)
From Coq Require Import Reals Lra ZArith Psatz.
From AV Require Export DenR.
From Coquelicot Require Export Complex.
Open Scope C_scope.

(* integers as ring expressions over 1, so that [ring]/[field] on C decide numeric identities *)
Fixpoint CofPos (p : positive) : C :=
  match p with
  | xH => 1
  | xO p' => (1 + 1) * CofPos p'
  | xI p' => 1 + (1 + 1) * CofPos p'
  end.
Definition CofZ (z : Z) : C :=
  match z with Z0 => 0 | Zpos p => CofPos p | Zneg p => - CofPos p end.

Lemma RtoC_2 : RtoC 2 = 1 + 1.
Proof. unfold RtoC, Cplus; cbn [fst snd]. f_equal; lra. Qed.
Lemma CofPos_R p : CofPos p = RtoC (IZR (Zpos p)).
Proof.
  induction p as [p IH|p IH|]; cbn [CofPos].
  - rewrite IH. rewrite Pos2Z.inj_xI, plus_IZR, mult_IZR. rewrite RtoC_plus, RtoC_mult, RtoC_2. ring.
  - rewrite IH. rewrite Pos2Z.inj_xO, mult_IZR, RtoC_mult, RtoC_2. ring.
  - reflexivity.
Qed.
Lemma CofZ_R z : CofZ z = RtoC (IZR z).
Proof.
  destruct z as [|p|p]; cbn [CofZ].
  - reflexivity.
  - apply CofPos_R.
  - rewrite CofPos_R. rewrite <- RtoC_opp. f_equal.
Qed.

Definition Cpow_pos (z : C) (p : positive) : C := Pos.iter_op Cmult p z.
Definition CpowZ (z : C) (n : Z) : C :=
  match n with Z0 => 1 | Zpos p => Cpow_pos z p | Zneg p => / Cpow_pos z p end.

(* principal square root: Re >= 0, and on the negative real axis +i sqrt(-x) *)
Definition Csqrt (z : C) : C :=
  let r := Cmod z in
  (sqrt ((r + fst z) / 2),
   if Rlt_dec (snd z) 0 then (- sqrt ((r - fst z) / 2))%R else sqrt ((r - fst z) / 2)).

Lemma Cmod_R_abs x : Cmod (RtoC x) = Rabs x.
Proof. apply Cmod_R. Qed.

Lemma Csqrt_nonneg x : (0 <= x)%R -> Csqrt (RtoC x) = RtoC (sqrt x).
Proof.
  intros Hx. unfold Csqrt. rewrite Cmod_R, Rabs_pos_eq by exact Hx. cbn [fst snd RtoC].
  destruct (Rlt_dec 0 0) as [H|_]; [lra|].
  replace ((x + x) / 2)%R with x by field. replace ((x - x) / 2)%R with 0%R by field.
  rewrite sqrt_0. reflexivity.
Qed.
Lemma Csqrt_neg x : (x < 0)%R -> Csqrt (RtoC x) = Ci * RtoC (sqrt (- x)).
Proof.
  intros Hx. unfold Csqrt. rewrite Cmod_R, Rabs_left by exact Hx. cbn [fst snd RtoC].
  destruct (Rlt_dec 0 0) as [H|_]; [lra|].
  replace ((- x + x) / 2)%R with 0%R by field. replace ((- x - x) / 2)%R with (- x)%R by field.
  rewrite sqrt_0. unfold Ci, Cmult, RtoC. cbn [fst snd]. f_equal; ring.
Qed.

Definition Cexp (z : C) : C := (exp (fst z) * cos (snd z), exp (fst z) * sin (snd z))%R.
Definition Carg (z : C) : R := atan2 (snd z) (fst z).
Definition Clog (z : C) : C := (ln (Cmod z), Carg z).

Lemma Clog_pos x : (0 < x)%R -> Clog (RtoC x) = RtoC (ln x).
Proof.
  intros Hx. unfold Clog, Carg. rewrite Cmod_R, Rabs_pos_eq by lra. cbn [fst snd RtoC].
  unfold atan2. destruct (Rlt_dec 0 x) as [_|N]; [|lra].
  replace (0 / x)%R with 0%R by (field; lra). rewrite atan_0. reflexivity.
Qed.
Lemma Clog_neg x : (x < 0)%R -> Clog (RtoC x) = (ln (- x), PI).
Proof.
  intros Hx. unfold Clog, Carg. rewrite Cmod_R, Rabs_left by lra. cbn [fst snd RtoC].
  unfold atan2. destruct (Rlt_dec 0 x) as [H|_]; [lra|].
  destruct (Rlt_dec x 0) as [_|N]; [|lra]. destruct (Rle_dec 0 0) as [_|N]; [|lra].
  replace (0 / x)%R with 0%R by (field; lra). rewrite atan_0. f_equal. ring.
Qed.

Lemma Ci2 : Ci * Ci = - 1.
Proof. unfold Ci, Cmult, Copp, RtoC. cbn [fst snd]. f_equal; ring. Qed.
Lemma RtoC_neq0 x : x <> 0%R -> RtoC x <> 0.
Proof. intros H E. apply RtoC_inj in E. contradiction. Qed.
Lemma C_neq0_re (z : C) : fst z <> 0%R -> z <> 0.
Proof. intros H E. rewrite E in H. cbn in H. lra. Qed.
Lemma C_neq0_im (z : C) : snd z <> 0%R -> z <> 0.
Proof. intros H E. rewrite E in H. cbn in H. lra. Qed.

(* ---- lifting: complex expressions over real atoms are real expressions ---- *)
Lemma Cinv_R (a : R) : / RtoC a = RtoC (/ a).
Proof.
  destruct (Req_EM_T a 0) as [->|Ha].
  - unfold Cinv, RtoC; cbn [fst snd]. rewrite Rinv_0. unfold Rdiv.
    apply injective_projections; cbn [fst snd]; lra.
  - symmetry. apply RtoC_inv. exact Ha.
Qed.
Lemma Cdiv_R (a b : R) : RtoC a / RtoC b = RtoC (a / b).
Proof. unfold Cdiv, Rdiv. rewrite Cinv_R, <- RtoC_mult. reflexivity. Qed.
Lemma Cpow_pos_R (a : R) p : Cpow_pos (RtoC a) p = RtoC (a ^ Pos.to_nat p).
Proof.
  unfold Cpow_pos. induction p as [|p IH] using Pos.peano_ind.
  - change (RtoC a = RtoC (a ^ 1)). rewrite pow_1. reflexivity.
  - rewrite Pos.iter_op_succ by (intros; ring). rewrite IH, Pos2Nat.inj_succ. cbn [pow].
    rewrite RtoC_mult. reflexivity.
Qed.
Lemma CpowZ_R (a : R) z : CpowZ (RtoC a) z = RtoC (powZ a z).
Proof.
  destruct z as [|p|p]; cbn [CpowZ powZ].
  - reflexivity.
  - apply Cpow_pos_R.
  - rewrite Cpow_pos_R, Cinv_R. reflexivity.
Qed.
Lemma Cmod_RtoC (a : R) : Cmod (RtoC a) = Rabs a.
Proof. apply Cmod_R. Qed.
Lemma Cconj_R (a : R) : Cconj (RtoC a) = RtoC a.
Proof. unfold Cconj, RtoC; cbn [fst snd]. f_equal. ring. Qed.
Lemma Cexp_R (a : R) : Cexp (RtoC a) = RtoC (exp a).
Proof. unfold Cexp, RtoC; cbn [fst snd]. rewrite cos_0, sin_0. f_equal; ring. Qed.
Lemma CofZ_lift z : CofZ z = RtoC (IZR z). Proof. apply CofZ_R. Qed.
Lemma CofPos_lift p : CofPos p = RtoC (IZR (Zpos p)). Proof. apply CofPos_R. Qed.
Lemma fst_RtoC (a : R) : fst (RtoC a) = a. Proof. reflexivity. Qed.
Lemma snd_RtoC (a : R) : snd (RtoC a) = 0%R. Proof. reflexivity. Qed.
Lemma RtoC_0 : RtoC 0 = 0. Proof. reflexivity. Qed.
Lemma RtoC_1 : RtoC 1 = 1. Proof. reflexivity. Qed.

(* i * real and real * i forms *)
Lemma re_Ci_mult (a : R) : Ci * RtoC a = (0%R, a).
Proof. unfold Ci, Cmult, RtoC; cbn [fst snd]. f_equal; ring. Qed.

Ltac lift_R :=
  repeat first
    [ rewrite CofZ_lift | rewrite CofPos_lift
    | rewrite <- RtoC_plus | rewrite <- RtoC_mult | rewrite <- RtoC_opp | rewrite <- RtoC_minus
    | rewrite Cinv_R | rewrite Cdiv_R | rewrite CpowZ_R | rewrite Cpow_pos_R | rewrite Cmod_RtoC
    | rewrite Cconj_R | rewrite Cexp_R | rewrite fst_RtoC | rewrite snd_RtoC ].
