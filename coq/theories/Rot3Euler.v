(* Rot3Euler.v — Z-Y-Z Euler decomposition of a proper 3x3 rotation from the entries of its third row and
   column (independent of /repo; used by C04's tie of compute_wigner_angles).  Kept in its own file because
   Nsatz changes notations. *)
From Coq Require Import Reals Lra Psatz Nsatz.
From AV Require Import DenR Mat Rot3.
Open Scope R_scope.

(* for a proper rotation every entry equals its cofactor: M^T = adj M *)
Lemma proper_adj A : proper A -> tr3 A = adj3 A.
Proof.
  intros [Ho Hd]. unfold orth in Ho.
  rewrite <- (mul3_id_r (tr3 A)). rewrite <- (smul3_1 id3), <- Hd, <- adj3_r.
  rewrite <- mul3_assoc, Ho, mul3_id_l. reflexivity.
Qed.

(* with c_b = m33, s_b = s = sqrt(1 - m33^2) > 0, (c_a, s_a) = (m31, m32)/s, (c_g, s_g) = (-m13, m23)/s:
   Rz(a) Ry(b) Rz(g) = M^T *)
Lemma euler_zyz_of_transpose (M : M3) (s : R) : proper M -> 0 < s -> s ^ 2 = 1 - a33 M ^ 2 ->
  mul3 (rz3 (a31 M / s) (a32 M / s)) (mul3 (ry3 (a33 M) s) (rz3 (- a13 M / s) (a23 M / s))) = tr3 M.
Proof.
  intros HM Hs Hs2.
  pose proof (proper_adj M HM) as Hadj.
  pose proof (proper_right_inverse M HM) as Hr. destruct HM as [Ho Hd]. unfold orth in Ho.
  destruct M as [m11 m12 m13 m21 m22 m23 m31 m32 m33].
  unfold tr3, adj3, mul3, id3, det3m, det3, rz3, ry3 in *. cbn [a11 a12 a13 a21 a22 a23 a31 a32 a33] in *.
  injection Hadj as A11 A12 A13 A21 A22 A23 A31 A32 A33.
  injection Ho as O11 O12 O13 O21 O22 O23 O31 O32 O33.
  injection Hr as R11 R12 R13 R21 R22 R23 R31 R32 R33.
  assert (Hs0 : s <> 0) by lra.
  f_equal; field_simplify_eq; try assumption; cbn [pow] in *; nsatz.
Qed.
