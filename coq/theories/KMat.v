(* KMat.v — algebra behind the K-matrix formalism (C09, C10).  Hand-written, independent of /repo.

   Part 1  abstract: in ANY (non-commutative) ring with an anti-involution and a central
           imaginary unit, the Cayley transform of a self-adjoint K is unitary and symmetric
           (all matrix sizes at once: n x n complex matrices are one instance).
   Part 2  the concrete instances M1, M2, M3 (1x1, 2x2, 3x3 complex matrices) used to state the
           per-size theorems about the regenerated T-matrices.
   Part 3  meaning of SymPy's Sum(body, (R, 1, n_poles)) over the pole index.
   Part 4  syntactic occurrence checks on the deep AST and their soundness. *)
Require Import Ncring Ncring_tac.
From AV Require Export DenC.
From Coq Require Import Lra.

(* ------------------------------------------------------------------------------------ *)
(* Part 1: abstract star-ring                                                             *)
(* ------------------------------------------------------------------------------------ *)
Section StarRing.
  Variable A : Type.
  Variables (zero one : A) (add mul : A -> A -> A) (opp : A -> A).

  Record ring_ax : Prop := {
    add_0_l : forall x, add zero x = x;
    add_comm : forall x y, add x y = add y x;
    add_assoc : forall x y z, add x (add y z) = add (add x y) z;
    mul_1_l : forall x, mul one x = x;
    mul_1_r : forall x, mul x one = x;
    mul_assoc : forall x y z, mul x (mul y z) = mul (mul x y) z;
    distr_l : forall x y z, mul (add x y) z = add (mul x z) (mul y z);
    distr_r : forall x y z, mul z (add x y) = add (mul z x) (mul z y);
    opp_def : forall x, add x (opp x) = zero }.

  (* an anti-involution: additive, reverses products, involutive, fixes 1 *)
  Record antiinv_ax (f : A -> A) : Prop := {
    ai_add : forall x y, f (add x y) = add (f x) (f y);
    ai_mul : forall x y, f (mul x y) = mul (f y) (f x);
    ai_invol : forall x, f (f x) = x;
    ai_one : f one = one }.

  (* a central square root of -1 *)
  Record imag_ax (ii : A) : Prop := {
    ii_central : forall x, mul ii x = mul x ii;
    ii_sq : mul ii ii = opp one }.

  Hypothesis RA : ring_ax.
  Variable ii : A.
  Hypothesis IA : imag_ax ii.

  Definition sub (x y : A) : A := add x (opp y).
  Definition two : A := add one one.
  (* 1 - iK  and  S = 1 + 2iT *)
  Definition cay_den (K : A) : A := sub one (mul ii K).
  Definition smat (T : A) : A := add one (mul two (mul ii T)).

  Local Instance ops : @Ring_ops A zero one add mul sub opp (@eq A) := {}.
  Local Instance rr : Ring (Ro := ops).
  Proof.
    constructor.
    - exact eq_equivalence.
    - intros x x' Hx y y' Hy. change (x = x') in Hx. change (y = y') in Hy. subst. reflexivity.
    - intros x x' Hx y y' Hy. change (x = x') in Hx. change (y = y') in Hy. subst. reflexivity.
    - intros x x' Hx y y' Hy. change (x = x') in Hx. change (y = y') in Hy. subst. reflexivity.
    - intros x x' Hx. change (x = x') in Hx. subst. reflexivity.
    - exact (add_0_l RA).
    - exact (add_comm RA).
    - exact (add_assoc RA).
    - exact (mul_1_l RA).
    - exact (mul_1_r RA).
    - exact (mul_assoc RA).
    - exact (distr_l RA).
    - exact (distr_r RA).
    - intros x y. reflexivity.
    - exact (opp_def RA).
  Qed.

  Ltac ncr := unfold cay_den, smat, two, sub in *; non_commutative_ring.

  Lemma add_cancel_l x y z : add x y = add x z -> y = z.
  Proof.
    intros H. assert (E : add (opp x) (add x y) = add (opp x) (add x z)) by (rewrite H; reflexivity).
    assert (L : forall w, add (opp x) (add x w) = w).
    { intros w. rewrite (add_assoc RA), (add_comm RA (opp x) x), (opp_def RA), (add_0_l RA). reflexivity. }
    rewrite !L in E. exact E.
  Qed.

  Section AntiInv.
    Variable f : A -> A.
    Hypothesis FA : antiinv_ax f.
    Lemma ai_zero : f zero = zero.
    Proof.
      apply (add_cancel_l (f zero)). rewrite <- (ai_add _ FA), (add_0_l RA).
      rewrite (add_comm RA), (add_0_l RA). reflexivity.
    Qed.
    Lemma ai_opp x : f (opp x) = opp (f x).
    Proof.
      apply (add_cancel_l (f x)). rewrite <- (ai_add _ FA), !(opp_def RA). apply ai_zero.
    Qed.
  End AntiInv.

  (* moving the central unit to the front *)
  Lemma cen_l x y : mul x (mul ii y) = mul ii (mul x y).
  Proof. rewrite (mul_assoc RA), <- (ii_central _ IA), <- (mul_assoc RA). reflexivity. Qed.

  Lemma K_commutes_den K : mul K (cay_den K) = mul (cay_den K) K.
  Proof.
    assert (E : mul K (mul ii K) = mul (mul ii K) K) by (rewrite cen_l; apply (mul_assoc RA)).
    unfold cay_den, sub.
    rewrite (distr_r RA), (distr_l RA), (mul_1_l RA), (mul_1_r RA). f_equal.
    transitivity (opp (mul K (mul ii K))); [ncr|]. rewrite E. ncr.
  Qed.

  Lemma inverse_unique a X X' : mul a X = one -> mul X' a = one -> X' = X.
  Proof.
    intros H1 H2. rewrite <- (mul_1_r RA X'), <- H1, (mul_assoc RA), H2. apply (mul_1_l RA).
  Qed.

  Lemma commutes_with_inverse a X c :
    mul a X = one -> mul X a = one -> mul c a = mul a c -> mul X c = mul c X.
  Proof.
    intros H1 H2 Hc.
    transitivity (mul (mul X (mul c a)) X).
    - rewrite <- !(mul_assoc RA), H1, (mul_1_r RA). reflexivity.
    - rewrite Hc. rewrite (mul_assoc RA X a c), H2, (mul_1_l RA). reflexivity.
  Qed.

  (* push-through: if 1 - pq is invertible then so is 1 - qp, with inverse 1 + q Y p *)
  Lemma push_through p q Y :
    mul (sub one (mul p q)) Y = one -> mul Y (sub one (mul p q)) = one ->
    mul (sub one (mul q p)) (add one (mul (mul q Y) p)) = one /\
    mul (add one (mul (mul q Y) p)) (sub one (mul q p)) = one.
  Proof.
    intros H1 H2. split.
    - transitivity (add (sub one (mul q p)) (mul (mul q (mul (sub one (mul p q)) Y)) p)); [ncr|].
      rewrite H1. ncr.
    - transitivity (add (sub one (mul q p)) (mul (mul q (mul Y (sub one (mul p q)))) p)); [ncr|].
      rewrite H2. ncr.
  Qed.

  Section Unitarity.
    Variable dag : A -> A.
    Hypothesis DA : antiinv_ax dag.
    Hypothesis dag_ii : dag ii = opp ii.

    Lemma dag_den K : dag K = K -> dag (cay_den K) = add one (mul ii K).
    Proof.
      intros HK. unfold cay_den, sub.
      rewrite (ai_add _ DA), (ai_opp _ DA), (ai_one _ DA), (ai_mul _ DA), HK, dag_ii.
      f_equal. rewrite (ii_central _ IA). ncr.
    Qed.

    (* THE theorem: K self-adjoint, X a two-sided inverse of 1 - iK, T = K X
       ==> S = 1 + 2iT is unitary (both S^dagger S = 1 and S S^dagger = 1). *)
    Theorem cayley_unitary K X T :
      dag K = K -> mul (cay_den K) X = one -> mul X (cay_den K) = one -> T = mul K X ->
      mul (dag (smat T)) (smat T) = one /\ mul (smat T) (dag (smat T)) = one.
    Proof.
      intros HK H1 H2 ->.
      set (a := cay_den K) in *. set (b := add one (mul ii K)).
      assert (Hda : dag a = b) by (apply dag_den; exact HK).
      assert (Hdb : dag b = a) by (rewrite <- Hda; apply (ai_invol _ DA)).
      assert (Hab : mul a b = mul b a) by (unfold a, b; ncr).
      (* S = b X *)
      assert (HS : smat (mul K X) = mul b X).
      { transitivity (add (mul a X) (mul two (mul ii (mul K X)))).
        - rewrite H1. reflexivity.
        - unfold a, b. ncr. }
      assert (HSd : dag (smat (mul K X)) = mul (dag X) a).
      { rewrite HS, (ai_mul _ DA), Hdb. reflexivity. }
      assert (HXb : mul (dag X) b = one).
      { rewrite <- Hda, <- (ai_mul _ DA), H1. apply (ai_one _ DA). }
      assert (HbX : mul b (dag X) = one).
      { rewrite <- Hda, <- (ai_mul _ DA), H2. apply (ai_one _ DA). }
      assert (HXbc : mul X b = mul b X).
      { apply (commutes_with_inverse a); auto. }
      rewrite HSd, HS. split.
      - transitivity (mul (mul (dag X) (mul a b)) X); [ncr|].
        rewrite Hab. transitivity (mul (mul (dag X) b) (mul a X)); [ncr|].
        rewrite HXb, H1. apply (mul_1_l RA).
      - rewrite <- HXbc.
        transitivity (mul (mul X (mul b (dag X))) a); [ncr|].
        rewrite HbX, (mul_1_r RA). exact H2.
    Qed.
  End Unitarity.

  Section Symmetry.
    Variable tr : A -> A.
    Hypothesis TA : antiinv_ax tr.
    Hypothesis tr_ii : tr ii = ii.

    Lemma tr_den K : tr K = K -> tr (cay_den K) = cay_den K.
    Proof.
      intros HK. unfold cay_den, sub.
      rewrite (ai_add _ TA), (ai_opp _ TA), (ai_one _ TA), (ai_mul _ TA), HK, tr_ii.
      rewrite (ii_central _ IA). reflexivity.
    Qed.

    Theorem cayley_symmetric K X T :
      tr K = K -> mul (cay_den K) X = one -> mul X (cay_den K) = one -> T = mul K X -> tr T = T.
    Proof.
      intros HK H1 H2 ->.
      assert (HtX : tr X = X).
      { apply (inverse_unique (cay_den K)); [exact H1|].
        rewrite <- (tr_den K HK) at 1. rewrite <- (ai_mul _ TA), H1. apply (ai_one _ TA). }
      rewrite (ai_mul _ TA), HtX, HK.
      apply (commutes_with_inverse (cay_den K)); auto. apply K_commutes_den.
    Qed.
  End Symmetry.

  (* From the defining equations (what is checked on the regenerated T): T(1-iK) = K and
     (1-iK)T = K give the two-sided inverse X = 1 + iT of 1 - iK and T = K X. *)
  Lemma inverse_from_defining K T :
    mul T (cay_den K) = K -> mul (cay_den K) T = K ->
    let X := add one (mul ii T) in
    mul (cay_den K) X = one /\ mul X (cay_den K) = one /\ T = mul K X.
  Proof.
    intros HT1 HT2 X. unfold X.
    assert (E1 : mul (cay_den K) (add one (mul ii T)) = add (cay_den K) (mul ii (mul (cay_den K) T))).
    { rewrite (distr_r RA), (mul_1_r RA), cen_l. reflexivity. }
    assert (E2 : mul (add one (mul ii T)) (cay_den K) = add (cay_den K) (mul ii (mul T (cay_den K)))).
    { rewrite (distr_l RA), (mul_1_l RA), <- (mul_assoc RA). reflexivity. }
    assert (E3 : add (cay_den K) (mul ii K) = one) by ncr.
    repeat split.
    - rewrite E1, HT2. exact E3.
    - rewrite E2, HT1. exact E3.
    - (* K X = K + i K T = K + iK T ; (1 - iK) T = K  =>  T = K + iK T *)
      rewrite (distr_r RA), (mul_1_r RA), cen_l.
      rewrite <- HT2 at 1. ncr.
  Qed.

  (* relativistic defining equations, convention of RelativisticKMatrix:
     That (1 - i rho Khat) = Khat  and  (1 - i Khat rho) That = Khat
     give the two-sided inverse Y = 1 + i rho That of 1 - i rho Khat and That = Khat Y. *)
  Lemma inverse_from_defining_rel rho Kh Th :
    mul Th (cay_den (mul rho Kh)) = Kh -> mul (cay_den (mul Kh rho)) Th = Kh ->
    let Y := add one (mul ii (mul rho Th)) in
    mul (cay_den (mul rho Kh)) Y = one /\ mul Y (cay_den (mul rho Kh)) = one /\ Th = mul Kh Y.
  Proof.
    intros E1 E2 Y. unfold Y. clear Y.
    set (a' := cay_den (mul rho Kh)) in *.
    assert (E3 : add a' (mul ii (mul rho Kh)) = one) by (unfold a'; ncr).
    assert (F1 : mul (add one (mul ii (mul rho Th))) a' = add a' (mul ii (mul rho (mul Th a')))) by ncr.
    assert (F2 : mul a' (add one (mul ii (mul rho Th))) = add a' (mul ii (mul a' (mul rho Th)))).
    { rewrite (distr_r RA), (mul_1_r RA), cen_l. reflexivity. }
    assert (G : mul rho (mul (mul ii (mul Kh rho)) Th) = mul (mul ii (mul rho Kh)) (mul rho Th)).
    { rewrite <- (mul_assoc RA ii (mul Kh rho) Th), cen_l. ncr. }
    assert (F3 : mul a' (mul rho Th) = mul rho (mul (cay_den (mul Kh rho)) Th)).
    { transitivity (sub (mul rho Th) (mul (mul ii (mul rho Kh)) (mul rho Th))); [unfold a'; ncr|].
      rewrite <- G. ncr. }
    repeat split.
    - rewrite F2, F3, E2. exact E3.
    - rewrite F1, E1. exact E3.
    - rewrite (distr_r RA), (mul_1_r RA), cen_l.
      rewrite <- E2 at 1. ncr.
  Qed.

  Section Both.
    Variables dag tr : A -> A.
    Hypothesis DA : antiinv_ax dag.
    Hypothesis dag_ii : dag ii = opp ii.
    Hypothesis TA : antiinv_ax tr.
    Hypothesis tr_ii : tr ii = ii.

    Theorem cayley_from_defining K T :
      dag K = K -> tr K = K -> mul T (cay_den K) = K -> mul (cay_den K) T = K ->
      mul (dag (smat T)) (smat T) = one /\ mul (smat T) (dag (smat T)) = one /\ tr T = T.
    Proof.
      intros HdK HtK HT1 HT2.
      destruct (inverse_from_defining K T HT1 HT2) as [H1 [H2 H3]].
      destruct (cayley_unitary dag DA dag_ii K _ T HdK H1 H2 H3) as [U1 U2].
      repeat split; auto. exact (cayley_symmetric tr TA tr_ii K _ T HtK H1 H2 H3).
    Qed.

    (* relativistic variant, in the convention of RelativisticKMatrix:
       rho = r r with r self-adjoint and symmetric (diagonal real positive square roots),
       Khat self-adjoint and symmetric, Y a two-sided inverse of 1 - i rho Khat,
       That = Khat Y,  T = r That r.  Then T is unitary in the same sense and symmetric, and
       That is symmetric.  (r need not be invertible.) *)
    Theorem cayley_unitary_rel r Kh Y That T :
      dag r = r -> tr r = r -> dag Kh = Kh -> tr Kh = Kh ->
      mul (cay_den (mul (mul r r) Kh)) Y = one -> mul Y (cay_den (mul (mul r r) Kh)) = one ->
      That = mul Kh Y -> T = mul (mul r That) r ->
      mul (dag (smat T)) (smat T) = one /\ mul (smat T) (dag (smat T)) = one /\ tr T = T
      /\ tr That = That.
    Proof.
      intros Hdr Htr HdK HtK H1 H2 -> ->.
      set (p := mul ii r). set (q := mul r Kh).
      assert (Epq : cay_den (mul (mul r r) Kh) = sub one (mul p q)) by (unfold p, q; ncr).
      rewrite Epq in H1, H2.
      destruct (push_through p q Y H1 H2) as [P1 P2].
      set (K' := mul (mul r Kh) r).
      assert (Eqp : sub one (mul q p) = cay_den K').
      { unfold q, p, K', cay_den. rewrite cen_l. reflexivity. }
      rewrite Eqp in P1, P2.
      set (X' := add one (mul (mul q Y) p)) in *.
      assert (HY : Y = add one (mul (mul p q) Y)).
      { transitivity (add (mul (sub one (mul p q)) Y) (mul (mul p q) Y)); [ncr|].
        rewrite H1. reflexivity. }
      assert (HT : mul (mul r (mul Kh Y)) r = mul K' X').
      { unfold K', X'.
        assert (E : mul (mul (mul r Kh) r) (add one (mul (mul q Y) p))
                    = mul (mul q (add one (mul (mul p q) Y))) r).
        { assert (Ep : mul (mul q Y) p = mul ii (mul (mul q Y) r)) by (unfold p; apply cen_l).
          assert (Epq2 : mul (mul p q) Y = mul ii (mul (mul r q) Y)) by (unfold p; ncr).
          rewrite Ep, Epq2.
          rewrite !(distr_r RA), !cen_l. unfold q. ncr. }
        rewrite E, <- HY. unfold q. ncr. }
      assert (HdK' : dag K' = K').
      { unfold K'. rewrite !(ai_mul _ DA), Hdr, HdK. ncr. }
      assert (HtK' : tr K' = K').
      { unfold K'. rewrite !(ai_mul _ TA), Htr, HtK. ncr. }
      destruct (cayley_unitary dag DA dag_ii K' X' _ HdK' P1 P2 HT) as [U1 U2].
      repeat split; auto.
      - exact (cayley_symmetric tr TA tr_ii K' X' _ HtK' P1 P2 HT).
      - (* That symmetric: tr Y is the inverse of c = 1 - i Kh rho, and c Kh = Kh a' *)
        set (a' := sub one (mul p q)) in *.
        set (c := tr a').
        assert (Hc : c = sub one (mul ii (mul Kh (mul r r)))).
        { unfold c, a', sub, p, q.
          rewrite (ai_add _ TA), (ai_opp _ TA), (ai_one _ TA), !(ai_mul _ TA), Htr, HtK, tr_ii.
          rewrite <- (ii_central _ IA r), cen_l. ncr. }
        assert (HcK : mul c Kh = mul Kh a').
        { rewrite Hc. unfold a', p, q.
          assert (E : mul Kh (mul (mul ii r) (mul r Kh)) = mul ii (mul Kh (mul r (mul r Kh)))).
          { rewrite <- (mul_assoc RA ii), cen_l. reflexivity. }
          transitivity (sub Kh (mul Kh (mul (mul ii r) (mul r Kh)))); [|ncr].
          rewrite E. ncr. }
        assert (HtY1 : mul (tr Y) c = one).
        { unfold c. rewrite <- (ai_mul _ TA), H1. apply (ai_one _ TA). }
        rewrite (ai_mul _ TA), HtK.
        transitivity (mul (mul (tr Y) (mul Kh a')) Y).
        + rewrite <- !(mul_assoc RA), H1, (mul_1_r RA). reflexivity.
        + rewrite <- HcK. rewrite (mul_assoc RA (tr Y) c Kh), HtY1, (mul_1_l RA). reflexivity.
    Qed.
  End Both.
End StarRing.

(* ------------------------------------------------------------------------------------ *)
(* Part 2: the rings of 1x1, 2x2, 3x3 complex matrices                                    *)
(* ------------------------------------------------------------------------------------ *)
Open Scope C_scope.

Lemma Cconj_add (x y : C) : Cconj (x + y) = Cconj x + Cconj y.
Proof. destruct x, y. unfold Cconj, Cplus; cbn [fst snd]. f_equal. ring. Qed.
Lemma Cconj_mul (x y : C) : Cconj (x * y) = Cconj x * Cconj y.
Proof. destruct x, y. unfold Cconj, Cmult; cbn [fst snd]. f_equal; ring. Qed.
Lemma Cconj_invol (x : C) : Cconj (Cconj x) = x.
Proof. destruct x. unfold Cconj; cbn [fst snd]. f_equal. ring. Qed.
Lemma Cconj_1 : Cconj 1 = 1.
Proof. unfold Cconj, RtoC; cbn [fst snd]. f_equal. ring. Qed.
Lemma Cconj_0 : Cconj 0 = 0.
Proof. unfold Cconj, RtoC; cbn [fst snd]. f_equal. ring. Qed.
Lemma Cconj_Ci : Cconj Ci = - Ci.
Proof. unfold Cconj, Ci, Copp; cbn [fst snd]. f_equal. ring. Qed.
Lemma Cconj_opp (x : C) : Cconj (- x) = - Cconj x.
Proof. destruct x. unfold Cconj, Copp; cbn [fst snd]. reflexivity. Qed.
Lemma Cconj_real (x : C) : isreal x -> Cconj x = x.
Proof. destruct x as [a b]. unfold isreal, Cconj; cbn [fst snd]. intros ->. f_equal. ring. Qed.

Lemma Ci2o : Ci * Ci = Copp 1.
Proof. unfold Ci, Cmult, Copp, RtoC; cbn [fst snd]. f_equal; ring. Qed.

(* entry (i, j) of a matrix given as a list of rows *)
Definition ent (l : list (list C)) (i j : nat) : C := nth j (nth i l []) 0.

(* --- 1x1 --- *)
Definition M1 := C.
Definition m1_of (l : list (list C)) : C := ent l 0 0.

Lemma M1_ring : ring_ax C 0 1 Cplus Cmult Copp.
Proof. constructor; intros; ring. Qed.
Lemma M1_imag : imag_ax C 1 Cmult Copp Ci.
Proof. constructor; intros; [ring | apply Ci2o]. Qed.
Lemma M1_dag : antiinv_ax C 1 Cplus Cmult Cconj.
Proof.
  constructor; intros.
  - apply Cconj_add.
  - rewrite Cconj_mul. ring.
  - apply Cconj_invol.
  - apply Cconj_1.
Qed.
Lemma M1_tr : antiinv_ax C 1 Cplus Cmult (fun x => x).
Proof. constructor; intros; try reflexivity. ring. Qed.

(* --- 2x2 --- *)
Record M2 := mk2 { a00 : C; a01 : C; a10 : C; a11 : C }.
Definition m2_of (l : list (list C)) : M2 := mk2 (ent l 0 0) (ent l 0 1) (ent l 1 0) (ent l 1 1).
Definition M2zero := mk2 0 0 0 0.
Definition M2one := mk2 1 0 0 1.
Definition M2i := mk2 Ci 0 0 Ci.
Definition M2add (x y : M2) :=
  mk2 (a00 x + a00 y) (a01 x + a01 y) (a10 x + a10 y) (a11 x + a11 y).
Definition M2opp (x : M2) := mk2 (- a00 x) (- a01 x) (- a10 x) (- a11 x).
Definition M2mul (x y : M2) :=
  mk2 (a00 x * a00 y + a01 x * a10 y) (a00 x * a01 y + a01 x * a11 y)
      (a10 x * a00 y + a11 x * a10 y) (a10 x * a01 y + a11 x * a11 y).
Definition M2tr (x : M2) := mk2 (a00 x) (a10 x) (a01 x) (a11 x).
Definition M2dag (x : M2) := mk2 (Cconj (a00 x)) (Cconj (a10 x)) (Cconj (a01 x)) (Cconj (a11 x)).
Definition M2diag (d0 d1 : C) := mk2 d0 0 0 d1.

Ltac m2 :=
  intros;
  repeat match goal with x : M2 |- _ => destruct x end;
  cbv [M2add M2mul M2opp M2tr M2dag M2one M2zero M2i a00 a01 a10 a11];
  rewrite ?Cconj_add, ?Cconj_mul, ?Cconj_invol, ?Cconj_1, ?Cconj_0, ?Cconj_Ci;
  f_equal; try ring.

Lemma M2_ring : ring_ax M2 M2zero M2one M2add M2mul M2opp.
Proof. constructor; m2. Qed.
Lemma M2_imag : imag_ax M2 M2one M2mul M2opp M2i.
Proof. constructor; m2; ring [Ci2o]. Qed.
Lemma M2_dag : antiinv_ax M2 M2one M2add M2mul M2dag.
Proof. constructor; m2. Qed.
Lemma M2_tr : antiinv_ax M2 M2one M2add M2mul M2tr.
Proof. constructor; m2. Qed.
Lemma M2_dag_i : M2dag M2i = M2opp M2i.
Proof. m2. Qed.
Lemma M2_tr_i : M2tr M2i = M2i.
Proof. reflexivity. Qed.

(* --- 3x3 --- *)
Record M3 := mk3 { b00 : C; b01 : C; b02 : C; b10 : C; b11 : C; b12 : C; b20 : C; b21 : C; b22 : C }.
Definition m3_of (l : list (list C)) : M3 :=
  mk3 (ent l 0 0) (ent l 0 1) (ent l 0 2) (ent l 1 0) (ent l 1 1) (ent l 1 2)
      (ent l 2 0) (ent l 2 1) (ent l 2 2).
Definition M3zero := mk3 0 0 0 0 0 0 0 0 0.
Definition M3one := mk3 1 0 0 0 1 0 0 0 1.
Definition M3i := mk3 Ci 0 0 0 Ci 0 0 0 Ci.
Definition M3add (x y : M3) :=
  mk3 (b00 x + b00 y) (b01 x + b01 y) (b02 x + b02 y)
      (b10 x + b10 y) (b11 x + b11 y) (b12 x + b12 y)
      (b20 x + b20 y) (b21 x + b21 y) (b22 x + b22 y).
Definition M3opp (x : M3) :=
  mk3 (- b00 x) (- b01 x) (- b02 x) (- b10 x) (- b11 x) (- b12 x) (- b20 x) (- b21 x) (- b22 x).
Definition M3mul (x y : M3) :=
  mk3 (b00 x * b00 y + b01 x * b10 y + b02 x * b20 y)
      (b00 x * b01 y + b01 x * b11 y + b02 x * b21 y)
      (b00 x * b02 y + b01 x * b12 y + b02 x * b22 y)
      (b10 x * b00 y + b11 x * b10 y + b12 x * b20 y)
      (b10 x * b01 y + b11 x * b11 y + b12 x * b21 y)
      (b10 x * b02 y + b11 x * b12 y + b12 x * b22 y)
      (b20 x * b00 y + b21 x * b10 y + b22 x * b20 y)
      (b20 x * b01 y + b21 x * b11 y + b22 x * b21 y)
      (b20 x * b02 y + b21 x * b12 y + b22 x * b22 y).
Definition M3tr (x : M3) :=
  mk3 (b00 x) (b10 x) (b20 x) (b01 x) (b11 x) (b21 x) (b02 x) (b12 x) (b22 x).
Definition M3dag (x : M3) :=
  mk3 (Cconj (b00 x)) (Cconj (b10 x)) (Cconj (b20 x)) (Cconj (b01 x)) (Cconj (b11 x))
      (Cconj (b21 x)) (Cconj (b02 x)) (Cconj (b12 x)) (Cconj (b22 x)).
Definition M3diag (d0 d1 d2 : C) := mk3 d0 0 0 0 d1 0 0 0 d2.

Ltac m3 :=
  intros;
  repeat match goal with x : M3 |- _ => destruct x end;
  cbv [M3add M3mul M3opp M3tr M3dag M3one M3zero M3i b00 b01 b02 b10 b11 b12 b20 b21 b22];
  rewrite ?Cconj_add, ?Cconj_mul, ?Cconj_invol, ?Cconj_1, ?Cconj_0, ?Cconj_Ci;
  f_equal; try ring.

Lemma M3_ring : ring_ax M3 M3zero M3one M3add M3mul M3opp.
Proof. constructor; m3. Qed.
Lemma M3_imag : imag_ax M3 M3one M3mul M3opp M3i.
Proof. constructor; m3; ring [Ci2o]. Qed.
Lemma M3_dag : antiinv_ax M3 M3one M3add M3mul M3dag.
Proof. constructor; m3. Qed.
Lemma M3_tr : antiinv_ax M3 M3one M3add M3mul M3tr.
Proof. constructor; m3. Qed.
Lemma M3_dag_i : M3dag M3i = M3opp M3i.
Proof. m3. Qed.
Lemma M3_tr_i : M3tr M3i = M3i.
Proof. reflexivity. Qed.

(* ------------------------------------------------------------------------------------ *)
(* Part 3: matrices of trees; SymPy's Sum over the pole index                            *)
(* ------------------------------------------------------------------------------------ *)
Definition denMC (ρ : envC) (m : list (list expr)) : list (list C) := map (map (denC ρ)) m.
Fixpoint all_wdC (ρ : envC) (l : list expr) : Prop :=
  match l with [] => True | e :: l' => wdC ρ e /\ all_wdC ρ l' end.
Fixpoint wdMC (ρ : envC) (m : list (list expr)) : Prop :=
  match m with [] => True | r :: m' => all_wdC ρ r /\ wdMC ρ m' end.

(* the symbols K[i, j], P[i, 0], rho_i of ampform.dynamics.kmatrix (create_symbol_matrix names) *)
Definition K1 (ρ : envC) : C := csym ρ "K[0, 0]".
Definition K2 (ρ : envC) : M2 :=
  mk2 (csym ρ "K[0, 0]") (csym ρ "K[0, 1]") (csym ρ "K[1, 0]") (csym ρ "K[1, 1]").
Definition K3 (ρ : envC) : M3 :=
  mk3 (csym ρ "K[0, 0]") (csym ρ "K[0, 1]") (csym ρ "K[0, 2]")
      (csym ρ "K[1, 0]") (csym ρ "K[1, 1]") (csym ρ "K[1, 2]")
      (csym ρ "K[2, 0]") (csym ρ "K[2, 1]") (csym ρ "K[2, 2]").

(* ------------------------------------------------------------------------------------ *)
(* Part 3b: the denominators of a tree.  [wdC] of a big generated tree is a huge conjunction;
   what a proof needs from it are the facts "this denominator is not zero".  [dens] collects
   (an under-approximation of) the bases of negative integer powers; [dens_sound] extracts
   the corresponding facts from [wdC] without unfolding it. *)
Fixpoint dens (e : expr) : list expr :=
  match e with
  | App h args =>
      (match h, args with
       | HPow, [b; Num q] =>
           match Qden q, Qnum q with
           | 1%positive, Zneg _ => [b]
           | _, _ => []
           end
       | _, _ => []
       end) ++
      (match h with HPiecewise => [] | _ => flat_map dens args end)
  | _ => []
  end.

Fixpoint dedup (l : list expr) : list expr :=
  match l with
  | [] => []
  | x :: t => if existsb (expr_eqb x) t then dedup t else x :: dedup t
  end.

Lemma Forall_dedup (P : expr -> Prop) l : Forall P l -> Forall P (dedup l).
Proof.
  induction 1 as [|x t Hx Ht IH]; cbn [dedup]; [constructor|].
  destruct (existsb (expr_eqb x) t); [exact IH | constructor; assumption].
Qed.

Definition nz (ρ : envC) (d : expr) : Prop := denC ρ d <> 0.

Lemma dens_args_sound ρ args :
  Forall (fun a => wdC ρ a -> Forall (nz ρ) (dens a)) args ->
  (fix all (l : list expr) : Prop := match l with [] => True | x :: l' => wdC ρ x /\ all l' end) args ->
  Forall (nz ρ) (flat_map dens args).
Proof.
  induction 1 as [|a args Ha _ IH]; cbn [flat_map]; intros Hall; [constructor|].
  destruct Hall as [H1 H2]. apply Forall_app. split; auto.
Qed.

Lemma dens_sound ρ e : wdC ρ e -> Forall (nz ρ) (dens e).
Proof.
  induction e as [s|q|h args IH] using expr_ind'; intros Hwd; try constructor.
  destruct h; try (cbn [dens app]; constructor);
    try (cbn [dens]; cbn [wdC] in Hwd; destruct Hwd as [Hall Hh];
         apply Forall_app; split; [|apply dens_args_sound; assumption]).
  all: try constructor.
  (* HPow *)
  destruct args as [|b [|[s|q|h' a'] [|c rest]]]; try constructor.
  cbn [wd_headC map chd0] in Hh. unfold wd_cpowQ in Hh.
  destruct (Qden q) as [p|p|]; try constructor.
  destruct (Qnum q); try constructor; [exact Hh|constructor].
Qed.

Definition densM (m : list (list expr)) : list expr := dedup (flat_map (flat_map dens) m).

Lemma densM_sound ρ m : wdMC ρ m -> Forall (nz ρ) (densM m).
Proof.
  intros H. apply Forall_dedup. induction m as [|r m IH]; cbn [flat_map]; [constructor|].
  destruct H as [Hr Hm]. apply Forall_app. split; [|apply IH; exact Hm].
  clear IH Hm. induction r as [|e r IHr]; cbn [flat_map]; [constructor|].
  destruct Hr as [He Hr]. apply Forall_app. split; [apply dens_sound; exact He | apply IHr; exact Hr].
Qed.

(* tactics shared by C09/C10: from [H : wdMC ρ m] to named non-zero denominators *)
Definition DEN (d e : C) : Prop := d = e.
Ltac forall_inv HD :=
  lazymatch type of HD with
  | Forall _ [] => clear HD
  | Forall _ (_ :: _) =>
      let H1 := fresh "Hnz" in let H2 := fresh "HD" in
      pose proof (Forall_inv HD) as H1; pose proof (Forall_inv_tail HD) as H2; clear HD;
      unfold nz in H1; denC_simpl_in H1;
      forall_inv H2
  end.
Ltac dens_of H :=
  apply densM_sound in H;
  match type of H with Forall _ ?L => let L' := eval vm_compute in L in change L with L' in H end;
  forall_inv H.
Ltac name_dens :=
  repeat match goal with
         | H : ?e <> ?z |- _ =>
             (tryif is_var e then fail else idtac);
             let d := fresh "den" in let Ed := fresh "Eden" in
             remember e as d eqn:Ed in *; change (DEN d e) in Ed
         end.
Ltac name_atoms cs :=
  repeat match goal with
         | |- context [Cconj (Csqrt (cs ?s))] =>
             let v := fresh "cr" in set (v := Cconj (Csqrt (cs s))) in *; clearbody v
         end;
  repeat match goal with
         | |- context [Csqrt (cs ?s)] => let v := fresh "sr" in set (v := Csqrt (cs s)) in *; clearbody v
         end.
Ltac fld :=
  lazymatch goal with
  | E1 : DEN ?a1 ?b1, E2 : DEN ?a2 ?b2, E3 : DEN ?a3 ?b3, E4 : DEN ?a4 ?b4, E5 : DEN ?a5 ?b5, E6 : DEN ?a6 ?b6 |- _ =>
      field [Ci2o (E1 : a1 = b1) (E2 : a2 = b2) (E3 : a3 = b3) (E4 : a4 = b4) (E5 : a5 = b5) (E6 : a6 = b6)]
  | E1 : DEN ?a1 ?b1, E2 : DEN ?a2 ?b2, E3 : DEN ?a3 ?b3, E4 : DEN ?a4 ?b4, E5 : DEN ?a5 ?b5 |- _ =>
      field [Ci2o (E1 : a1 = b1) (E2 : a2 = b2) (E3 : a3 = b3) (E4 : a4 = b4) (E5 : a5 = b5)]
  | E1 : DEN ?a1 ?b1, E2 : DEN ?a2 ?b2, E3 : DEN ?a3 ?b3, E4 : DEN ?a4 ?b4 |- _ =>
      field [Ci2o (E1 : a1 = b1) (E2 : a2 = b2) (E3 : a3 = b3) (E4 : a4 = b4)]
  | E1 : DEN ?a1 ?b1, E2 : DEN ?a2 ?b2, E3 : DEN ?a3 ?b3 |- _ =>
      field [Ci2o (E1 : a1 = b1) (E2 : a2 = b2) (E3 : a3 = b3)]
  | E1 : DEN ?a1 ?b1, E2 : DEN ?a2 ?b2 |- _ => field [Ci2o (E1 : a1 = b1) (E2 : a2 = b2)]
  | E1 : DEN ?a1 ?b1 |- _ => field [Ci2o (E1 : a1 = b1)]
  | _ => field [Ci2o]
  end.
Ltac fld_close := fld; repeat split; assumption.

(* ---- Sum(body, (R, 1, n_poles)) ---- *)
Definition sum_parts (e : expr) : option (expr * expr) :=
  match e with
  | App (HOther h) [body; lim] => if String.eqb h "Sum" then Some (body, lim) else None
  | _ => None
  end.
Definition pole_limits : expr := App HTuple [Sym "R"; Num 1; Sym "n_poles"].
(* sum_{R=1}^{n} f R *)
Fixpoint sum_poles (f : nat -> C) (n : nat) : C :=
  match n with O => 0 | S k => sum_poles f k + f (S k) end.
(* The pole index R only occurs inside Indexed symbols (m[R], Gamma[R, i], ...), which the
   serialiser keeps atomic; the meaning of the Sum is the sum over r = 1..n of the body in the
   environment [ρ r] that binds those atoms to the r-th pole's parameters. *)
Definition den_pole_sum (ρ : nat -> envC) (n : nat) (e : expr) : C :=
  match sum_parts e with
  | Some (body, _) => sum_poles (fun r => denC (ρ r) body) n
  | None => 0
  end.
Definition wd_pole_sum (ρ : nat -> envC) (n : nat) (e : expr) : Prop :=
  match sum_parts e with
  | Some (body, lim) => lim = pole_limits /\ forall r, (1 <= r <= n)%nat -> wdC (ρ r) body
  | None => False
  end.

Lemma sum_poles_real_ext (f g : nat -> C) n :
  (forall r, (1 <= r <= n)%nat -> exists x : R, f r = RtoC x /\ g r = RtoC x) ->
  exists x : R, sum_poles f n = RtoC x /\ sum_poles g n = RtoC x.
Proof.
  induction n as [|n IH]; intros H.
  - exists 0%R. split; reflexivity.
  - destruct IH as [x [Hf Hg]]; [intros r Hr; apply H; split; [apply Hr | apply le_S, Hr]|].
    destruct (H (S n)) as [y [Hy1 Hy2]]; [split; [apply le_n_S, Nat.le_0_l | apply le_n]|].
    exists (x + y)%R. cbn [sum_poles]. rewrite Hf, Hg, Hy1, Hy2, RtoC_plus. split; reflexivity.
Qed.

(* ------------------------------------------------------------------------------------ *)
(* Part 4: syntactic checks on the deep AST                                               *)
(* ------------------------------------------------------------------------------------ *)
(* every [App] node satisfies [chk] *)
Fixpoint all_nodes (chk : head -> list expr -> bool) (e : expr) : bool :=
  match e with
  | App h args => chk h args && forallb (all_nodes chk) args
  | _ => true
  end.
(* number of [App] nodes satisfying [p] *)
Fixpoint count_nodes (p : head -> list expr -> bool) (e : expr) : nat :=
  match e with
  | App h args => (if p h args then 1 else 0) + fold_right Nat.add 0%nat (map (count_nodes p) args)
  | _ => 0%nat
  end.
(* the function symbol / class [f] occurs as a head *)
Fixpoint occursb (f : string) (e : expr) : bool :=
  match e with
  | App h args =>
      (match h with HOther g => String.eqb g f | _ => false end) || existsb (occursb f) args
  | _ => false
  end.

Lemma map_denC_ext ρ ρ' args :
  Forall (fun a => denC ρ a = denC ρ' a) args -> map (denC ρ) args = map (denC ρ') args.
Proof. induction 1 as [|a l Ha _ IH]; cbn [map]; [reflexivity | rewrite Ha, IH; reflexivity]. Qed.

(* If the head [f] does not occur in [e], the value of [e] does not depend on how [f] is
   interpreted: two environments that agree on all symbols and on every other function
   symbol give the same denotation. *)
Lemma occurs_sound (f : string) ρ ρ' :
  (forall s, csym ρ s = csym ρ' s) ->
  (forall g vs, g <> f -> cfn ρ g vs = cfn ρ' g vs) ->
  forall e, occursb f e = false -> denC ρ e = denC ρ' e.
Proof.
  intros Hs Hf. induction e as [s|q|h args IH] using expr_ind'; intros Hocc.
  - apply Hs.
  - reflexivity.
  - cbn [occursb] in Hocc. apply orb_false_iff in Hocc as [Hh Hargs].
    assert (E : map (denC ρ) args = map (denC ρ') args).
    { apply map_denC_ext. clear Hh. induction IH as [|a l Ha _ IHl]; constructor.
      - apply Ha. cbn [existsb] in Hargs. apply orb_false_iff in Hargs. tauto.
      - apply IHl. cbn [existsb] in Hargs. apply orb_false_iff in Hargs. tauto. }
    cbn [denC]. rewrite E. destruct h; try reflexivity.
    cbn [appC]. apply Hf. intros ->. rewrite String.eqb_refl in Hh. discriminate.
Qed.
