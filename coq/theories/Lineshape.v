(* Lineshape.v — Blatt-Weisskopf: rational form with certificate, Hankel-function definition.
   Independent of /repo. *)
From Coq Require Import Reals Lra Psatz ZArith List Lia Bool.
Import ListNotations.
Open Scope R_scope.

(* c * z^L / (d0 + d1 z + ... + dL z^L), coefficients lowest degree first *)
Fixpoint horner (ds : list Z) (z : R) : R :=
  match ds with [] => 0 | d :: ds' => IZR d + z * horner ds' z end.
Definition bw_rat (L : nat) (c : Z) (ds : list Z) (z : R) : R := IZR c * z ^ L / horner ds z.

Definition all_pos (ds : list Z) : bool := forallb (fun d => (0 <? d)%Z) ds.
Definition sumZ (ds : list Z) : Z := fold_right Z.add 0%Z ds.

Lemma horner_pos ds z : ds <> [] -> all_pos ds = true -> 0 <= z -> 0 < horner ds z.
Proof.
  intros Hne Hp Hz. induction ds as [|d ds IH]; [contradiction|].
  cbn [all_pos forallb] in Hp. apply andb_true_iff in Hp as [Hd Hp].
  apply Z.ltb_lt in Hd. apply IZR_lt in Hd. cbn [horner].
  destruct ds as [|d' ds'].
  - cbn [horner]. lra.
  - assert (0 < horner (d' :: ds') z) by (apply IH; [discriminate|exact Hp]).
    assert (0 <= z * horner (d' :: ds') z) by (apply Rmult_le_pos; lra). lra.
Qed.

Lemma horner_ge_lead ds z : all_pos ds = true -> 0 <= z ->
  IZR (last ds 0%Z) * z ^ (length ds - 1) <= horner ds z.
Proof.
  intros Hp Hz. induction ds as [|d ds IH]; [cbn; lra|].
  cbn [all_pos forallb] in Hp. apply andb_true_iff in Hp as [Hd Hp].
  apply Z.ltb_lt in Hd. apply IZR_lt in Hd. cbn [horner].
  destruct ds as [|d' ds'].
  - cbn. lra.
  - specialize (IH Hp). cbn [last length] in *.
    replace (S (S (length ds')) - 1)%nat with (S (length ds')) by lia.
    replace (S (length ds') - 1)%nat with (length ds') in IH by lia.
    cbn [pow]. assert (z * (IZR (last (d' :: ds') 0%Z) * z ^ length ds') <= z * horner (d' :: ds') z)
      by (apply Rmult_le_compat_l; assumption).
    cbn [last] in H. lra.
Qed.

Lemma horner_1 ds : horner ds 1 = IZR (sumZ ds).
Proof.
  induction ds as [|d ds IH]; [reflexivity|]. cbn [horner sumZ fold_right].
  rewrite plus_IZR. fold (sumZ ds). rewrite IH. ring.
Qed.

(* B_L^2(1) = 1 when c is the sum of the denominator coefficients *)
Lemma bw_rat_one L c ds : c = sumZ ds -> (0 < c)%Z -> bw_rat L c ds 1 = 1.
Proof.
  intros -> Hc. unfold bw_rat. rewrite horner_1, pow1. apply IZR_lt in Hc. field. lra.
Qed.

(* bounded on z >= 0 when the denominator is monic of degree L with positive coefficients *)
Lemma bw_rat_bounded L c ds z :
  length ds = S L -> last ds 0%Z = 1%Z -> all_pos ds = true -> (0 < c)%Z -> 0 <= z ->
  0 <= bw_rat L c ds z <= IZR c.
Proof.
  intros Hl Hlast Hp Hc Hz. unfold bw_rat.
  assert (Hne : ds <> []) by (destruct ds; [discriminate|discriminate]).
  pose proof (horner_pos ds z Hne Hp Hz) as Hh.
  pose proof (horner_ge_lead ds z Hp Hz) as Hg. rewrite Hlast, Hl in Hg.
  replace (S L - 1)%nat with L in Hg by lia.
  apply IZR_lt in Hc. assert (0 <= z ^ L) by (apply pow_le; exact Hz).
  split.
  - apply Rmult_le_pos; [apply Rmult_le_pos; lra | left; apply Rinv_0_lt_compat; exact Hh].
  - apply Rmult_le_reg_r with (horner ds z); [exact Hh|].
    replace (IZR c * z ^ L / horner ds z * horner ds z) with (IZR c * z ^ L) by (field; lra).
    apply Rmult_le_compat_l; lra.
Qed.

(* threshold behaviour: B_L^2(z) = z^L * r(z) with r(0) = c/d0 > 0 and r continuous on z >= 0 *)
Definition bw_residual (c : Z) (ds : list Z) (z : R) : R := IZR c / horner ds z.
Lemma bw_rat_threshold L c ds z : bw_rat L c ds z = z ^ L * bw_residual c ds z.
Proof. unfold bw_rat, bw_residual. unfold Rdiv. ring. Qed.
Lemma bw_residual_0 c d ds : (0 < c)%Z -> (0 < d)%Z -> 0 < bw_residual c (d :: ds) 0.
Proof.
  intros Hc Hd. unfold bw_residual. cbn [horner]. apply IZR_lt in Hc. apply IZR_lt in Hd.
  rewrite Rmult_0_l, Rplus_0_r. apply Rdiv_lt_0_compat; assumption.
Qed.
Lemma horner_continuous ds z : continuity_pt (horner ds) z.
Proof.
  induction ds as [|d ds IH].
  - apply continuity_pt_const. intros a b. reflexivity.
  - cbn [horner]. apply continuity_pt_plus.
    + apply continuity_pt_const. intros a b. reflexivity.
    + apply continuity_pt_mult; [apply derivable_continuous_pt, derivable_pt_id | exact IH].
Qed.
Lemma bw_residual_continuous c ds z : ds <> [] -> all_pos ds = true -> 0 <= z ->
  continuity_pt (bw_residual c ds) z.
Proof.
  intros Hne Hp Hz. unfold bw_residual.
  change (fun z0 => IZR c / horner ds z0) with ((fun _ => IZR c) / horner ds)%F.
  apply continuity_pt_div.
  - apply continuity_pt_const. intros a b. reflexivity.
  - apply horner_continuous.
  - pose proof (horner_pos ds z Hne Hp Hz). lra.
Qed.

(* ---- definition through spherical Hankel functions of the first kind, real argument ----
   h_L(x) = (-i)^(L+1) e^{ix}/x * sum_{k=0}^{L} (L+k)!/((L-k)! k!) (i/(2x))^k ,
   |h_L(x)|^2 = (Re S)^2 + (Im S)^2) / x^2 ;  B_L^2(z) = |h_L(1)|^2 / (|h_L(sqrt z)|^2 z). *)
Fixpoint zfact (n : nat) : Z := match n with O => 1%Z | S n' => (Z.of_nat n * zfact n')%Z end.
Definition hk_coefs (L : nat) : list Z :=
  map (fun k => (zfact (L + k) / (zfact (L - k) * zfact k))%Z) (seq 0 (S L)).
Fixpoint hk_re (cs : list Z) (k : nat) (y : R) : R :=
  match cs with
  | [] => 0
  | c :: cs' =>
      (match (k mod 4)%nat with O => IZR c | 2%nat => - IZR c | _ => 0 end) * y ^ k
      + hk_re cs' (S k) y
  end.
Fixpoint hk_im (cs : list Z) (k : nat) (y : R) : R :=
  match cs with
  | [] => 0
  | c :: cs' =>
      (match (k mod 4)%nat with 1%nat => IZR c | 3%nat => - IZR c | _ => 0 end) * y ^ k
      + hk_im cs' (S k) y
  end.
Definition hmod2 (L : nat) (x : R) : R :=
  ((hk_re (hk_coefs L) 0 (/ (2 * x))) ^ 2 + (hk_im (hk_coefs L) 0 (/ (2 * x))) ^ 2) / x ^ 2.
Definition bw_hankel (L : nat) (z : R) : R := hmod2 L 1 / (hmod2 L (sqrt z) * z).

Lemma hankel_norm_at_one L : hmod2 L 1 <> 0 -> bw_hankel L 1 = 1.
Proof. intros H. unfold bw_hankel. rewrite sqrt_1. field. exact H. Qed.
