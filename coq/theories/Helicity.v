(* Helicity.v — the helicity formula of C02 written twice:
   [intensity_sem] : the mathematical formula, as nested finite sums/products over plain data,
                     with conj-Wigner-D, Clebsch-Gordan and lineshapes as ARBITRARY functions/values;
   [intensity_expr]: the expression tree the builder is expected to produce for the same data.
   Helicity_proofs.v shows  denC (intensity_expr d) = intensity_sem d  for all data and all
   environments; the correspondence run compares [intensity_expr] (and its parts) with the
   implementation's model on the same reactions.  Hand-written, independent of /repo. *)
From AV Require Export DenC.
Open Scope string_scope.

(* spins and projections in units of 1/2 *)
Record hnode := {
  nJ : Z; nM : Z;                 (* decaying state: spin, projection *)
  na_s : Z; na_l : Z;             (* helicity child: spin, helicity *)
  nb_s : Z; nb_l : Z;             (* opposite-helicity child *)
  nphi : string; ntheta : string; (* helicity angles of the helicity child *)
  nLS : option (Z * Z);           (* canonical basis: (L, S) of this node *)
  nH : option string;             (* helicity-coupling symbol, when couplings are used *)
  ndyn : option expr              (* the assigned lineshape: any expression tree (or a placeholder symbol) *)
}.
Record hchain := {
  cC : option string;             (* coefficient symbol, when coefficients are used *)
  cpref : option Q;               (* parity prefactor, when present *)
  cnodes : list hnode
}.
(* one incoherent term: all chains (grouped per topology amplitude) sharing outer projections *)
Definition hgroup := list (list hchain).

Definition half (z : Z) : expr := Num (z # 2).
Definition opt_sym (o : option string) : list expr := match o with Some s => [Sym s] | None => [] end.
Definition opt_expr (o : option expr) : list expr := match o with Some e => [e] | None => [] end.
Definition opt_num (o : option Q) : list expr := match o with Some q => [Num q] | None => [] end.

(* ---------------- expected expression trees ---------------- *)
Definition wigner_expr (n : hnode) : expr :=
  App (HOther "WignerD")
    [half (nJ n); half (nM n); half (na_l n - nb_l n);
     App HMul [Num (-1 # 1); Sym (nphi n)]; Sym (ntheta n); Num (0 # 1)].
Definition cg_exprs (n : hnode) : list expr :=
  match nLS n with
  | None => []
  | Some (L, S2) =>
      [App (HOther "CG") [half L; Num (0 # 1); half S2; half (na_l n - nb_l n); half (nJ n); half (na_l n - nb_l n)];
       App (HOther "CG") [half (na_s n); half (na_l n); half (nb_s n); half (- nb_l n); half S2; half (na_l n - nb_l n)]]
  end.
Definition node_expr (n : hnode) : expr :=
  App HMul (cg_exprs n ++ opt_sym (nH n) ++ [wigner_expr n] ++ opt_expr (ndyn n)).
Definition chain_expr (c : hchain) : expr :=
  App HMul (opt_num (cpref c) ++ opt_sym (cC c) ++ map node_expr (cnodes c)).
Definition amp_expr (chains : list hchain) : expr := App HAdd (map chain_expr chains).
Definition group_expr (g : hgroup) : expr :=
  App HPow [App HAbs [App HAdd (map amp_expr g)]; Num (2 # 1)].
Definition intensity_expr (gs : list hgroup) : expr := App HAdd (map group_expr gs).

(* ---------------- the formula itself ---------------- *)
Section Sem.
  Variable ρ : envC.
  Definition hq (z : Z) : C := Q2C (z # 2).
  (* conj-Wigner-D(J, m, l1-l2; phi, theta) := D^J_{m, l1-l2}(-phi, theta, 0) and CG are whatever
     the environment says: the theorem holds for every interpretation *)
  Definition Dconj (J M l : Z) (phi theta : C) : C :=
    cfn ρ "WignerD" [hq J; hq M; hq l; Q2C (-1 # 1) * (phi * 1); theta; Q2C (0 # 1)].
  Definition CGf (j1 m1 j2 m2 j3 m3 : C) : C := cfn ρ "CG" [j1; m1; j2; m2; j3; m3].
  Definition osym (o : option string) : C := match o with Some s => csym ρ s | None => 1 end.
  Definition oexpr (o : option expr) : C := match o with Some e => denC ρ e | None => 1 end.
  Definition onum (o : option Q) : C := match o with Some q => Q2C q | None => 1 end.
  Definition cg_sem (n : hnode) : C :=
    match nLS n with
    | None => 1
    | Some (L, S2) =>
        CGf (hq L) (Q2C (0 # 1)) (hq S2) (hq (na_l n - nb_l n)) (hq (nJ n)) (hq (na_l n - nb_l n))
        * CGf (hq (na_s n)) (hq (na_l n)) (hq (nb_s n)) (hq (- nb_l n)) (hq S2) (hq (na_l n - nb_l n))
    end.
  Definition node_sem (n : hnode) : C :=
    cg_sem n * (osym (nH n) *
      (Dconj (nJ n) (nM n) (na_l n - nb_l n) (csym ρ (nphi n)) (csym ρ (ntheta n)) * oexpr (ndyn n))).
  Definition prodC (l : list C) : C := fold_right Cmult 1 l.
  Definition sumC (l : list C) : C := fold_right Cplus 0 l.
  Definition chain_sem (c : hchain) : C :=
    onum (cpref c) * (osym (cC c) * prodC (map node_sem (cnodes c))).
  Definition amp_sem (chains : list hchain) : C := sumC (map chain_sem chains).
  (* coherent sum over all chains of all topologies with these outer projections, squared modulus *)
  Definition group_sem (g : hgroup) : C :=
    RtoC (Cmod (sumC (map amp_sem g))) * RtoC (Cmod (sumC (map amp_sem g))).
  (* incoherent sum over the outer spin projections *)
  Definition intensity_sem (gs : list hgroup) : C := sumC (map group_sem gs).
End Sem.
