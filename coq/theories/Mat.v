(* Mat.v — 4x4 real matrices as lists of rows; the per-event meaning of ampform's
   rank-3 matrix arrays (the event axis is pointwise in every array operation). *)
From AV Require Export DenR.
Open Scope R_scope.

Definition mat := list (list R).
Definition denM (ρ : env) (m : list (list expr)) : mat := map (map (denR ρ)) m.
Definition denV (ρ : env) (v : list expr) : list R := map (denR ρ) v.

Fixpoint all_wd (ρ : env) (l : list expr) : Prop :=
  match l with [] => True | e :: l' => wdR ρ e /\ all_wd ρ l' end.
Fixpoint wdM (ρ : env) (m : list (list expr)) : Prop :=
  match m with [] => True | r :: m' => all_wd ρ r /\ wdM ρ m' end.

Definition dot (a b : list R) : R :=
  fold_right Rplus 0 (map (fun p => fst p * snd p) (combine a b)).
Fixpoint transpose (m : mat) : mat :=
  match m with
  | [] => [[]; []; []; []]
  | r :: m' => map (fun p => fst p :: snd p) (combine r (transpose m'))
  end.
Definition mmul (a b : mat) : mat := map (fun r => map (fun c => dot r c) (transpose b)) a.
Definition mvec (a : mat) (v : list R) : list R := map (fun r => dot r v) a.
Definition etaM : mat := [[1;0;0;0];[0;-1;0;0];[0;0;-1;0];[0;0;0;-1]].
Definition idM : mat := [[1;0;0;0];[0;1;0;0];[0;0;1;0];[0;0;0;1]].

Definition det3 (a b c d e f g h i : R) : R :=
  a * (e * i - f * h) - b * (d * i - f * g) + c * (d * h - e * g).
Definition det4 (m : mat) : R :=
  match m with
  | [[a0;a1;a2;a3];[b0;b1;b2;b3];[c0;c1;c2;c3];[d0;d1;d2;d3]] =>
      a0 * det3 b1 b2 b3 c1 c2 c3 d1 d2 d3
      - a1 * det3 b0 b2 b3 c0 c2 c3 d0 d2 d3
      + a2 * det3 b0 b1 b3 c0 c1 c3 d0 d1 d3
      - a3 * det3 b0 b1 b2 c0 c1 c2 d0 d1 d2
  | _ => 0
  end.
Definition entry00 (m : mat) : R := match m with (a :: _) :: _ => a | _ => 0 end.

Ltac mat_simpl :=
  cbv [denM denV mmul mvec transpose map combine dot fold_right fst snd etaM idM det4 det3 entry00
       wdM all_wd].

Lemma cons_eq {A} (a b : A) (l l' : list A) : a = b -> l = l' -> a :: l = b :: l'.
Proof. intros -> ->; reflexivity. Qed.
(* split an equation between explicit lists (of lists) into entry equations, and no further *)
Ltac mat_eq :=
  repeat match goal with
         | |- (_ :: _) = (_ :: _) => apply cons_eq
         | |- [] = [] => reflexivity
         end.
