(* Dpd.v — mathematics behind C19 (Dalitz-plot-decomposition angles), independent of /repo.
   Four-vectors, Minkowski products, the "Gram form" G_u(a,b) = (a.u)(b.u) - u^2 (a.b) whose
   value in the rest frame of u is u^2 times the Euclidean product of the three-momenta,
   Cauchy-Schwarz for it, positivity at non-collinear configurations, the addition rule for
   arccosines of coplanar directions, and a small structural reader of serialised angle trees. *)
From Coq Require Import Reals Lra Psatz Ratan.
From AV Require Import DenR.
Open Scope R_scope.

Record v4 := V4 { vE : R; vx : R; vy : R; vz : R }.
Definition vadd (a b : v4) : v4 := V4 (vE a + vE b) (vx a + vx b) (vy a + vy b) (vz a + vz b).
Definition vsub (a b : v4) : v4 := V4 (vE a - vE b) (vx a - vx b) (vy a - vy b) (vz a - vz b).
Definition mdot (a b : v4) : R := vE a * vE b - vx a * vx b - vy a * vy b - vz a * vz b.
Definition sdot (a b : v4) : R := vx a * vx b + vy a * vy b + vz a * vz b.
Definition cross2 (a b : v4) : R :=
  (vy a * vz b - vz a * vy b)^2 + (vz a * vx b - vx a * vz b)^2 + (vx a * vy b - vy a * vx b)^2.

(* G_u(a,b) *)
Definition gram (u a b : v4) : R := mdot a u * mdot b u - mdot u u * mdot a b.
(* cosine of the angle between the three-momenta of a and b in the rest frame of u,
   written with Lorentz invariants only (see cosf_rest / cosf_invariant) *)
Definition cosf (u a b : v4) : R := gram u a b / (sqrt (gram u a a) * sqrt (gram u b b)).
(* cosine of the angle between the three-momenta in the frame the components refer to *)
Definition cos3 (a b : v4) : R := sdot a b / (sqrt (sdot a a) * sqrt (sdot b b)).

Ltac v4_unfold := unfold cosf, cos3, gram, mdot, sdot, cross2, vadd, vsub; cbn [vE vx vy vz].

Lemma gram_rest u a b : vx u = 0 -> vy u = 0 -> vz u = 0 ->
  gram u a b = (vE u)^2 * sdot a b.
Proof. intros H1 H2 H3. unfold gram, mdot, sdot. rewrite H1, H2, H3. ring. Qed.

Lemma sqrt_sq_mult M s : 0 <= s -> sqrt (M^2 * s) = Rabs M * sqrt s.
Proof.
  intros Hs. rewrite sqrt_mult; [|apply pow2_ge_0|exact Hs].
  replace (M^2) with (Rsqr M) by (unfold Rsqr; ring). now rewrite sqrt_Rsqr_abs.
Qed.

Lemma pow2_pos x : x <> 0 -> 0 < x^2.
Proof. intros H. replace (x^2) with (Rsqr x) by (unfold Rsqr; ring). now apply Rlt_0_sqr. Qed.

Lemma mul_self_nonneg x : 0 <= x * x.
Proof. apply Rle_0_sqr. Qed.

Lemma sdot_nonneg a : 0 <= sdot a a.
Proof. unfold sdot. nra. Qed.

(* In a frame where u is at rest, cosf is the Euclidean cosine of the three-momenta. *)
Lemma cosf_rest u a b : vx u = 0 -> vy u = 0 -> vz u = 0 -> vE u <> 0 ->
  0 < sdot a a -> 0 < sdot b b -> cosf u a b = cos3 a b.
Proof.
  intros H1 H2 H3 HM Ha Hb. unfold cosf, cos3. rewrite !(gram_rest u _ _ H1 H2 H3).
  rewrite !sqrt_sq_mult by apply sdot_nonneg.
  assert (Hsa : 0 < sqrt (sdot a a)) by now apply sqrt_lt_R0.
  assert (Hsb : 0 < sqrt (sdot b b)) by now apply sqrt_lt_R0.
  assert (HA : 0 < Rabs (vE u)) by now apply Rabs_pos_lt.
  assert (HAA : Rabs (vE u) * Rabs (vE u) = (vE u)^2).
  { rewrite <- Rabs_mult. rewrite Rabs_pos_eq; [ring|nra]. }
  replace ((vE u)^2 * sdot a b) with (Rabs (vE u) * Rabs (vE u) * sdot a b) by (rewrite HAA; ring).
  field. repeat split; lra.
Qed.

(* cosf depends on the vectors only through their Minkowski products: it has the same value
   after any Lorentz transformation (any map preserving the six products). *)
Lemma cosf_invariant u a b u' a' b' :
  mdot u' u' = mdot u u -> mdot a' u' = mdot a u -> mdot b' u' = mdot b u ->
  mdot a' a' = mdot a a -> mdot b' b' = mdot b b -> mdot a' b' = mdot a b ->
  cosf u' a' b' = cosf u a b.
Proof. intros H1 H2 H3 H4 H5 H6. unfold cosf, gram. now rewrite H1, H2, H3, H4, H5, H6. Qed.

(* ---- positivity and Cauchy-Schwarz of the Gram form ---- *)
Section Cert.
  Variables u0 ux uy uz a0 ax ay az b0 bx by_ bz : R.
  Let u := V4 u0 ux uy uz.
  Let a := V4 a0 ax ay az.
  Let b := V4 b0 bx by_ bz.
  Let wax := u0 * ax - a0 * ux.  Let way := u0 * ay - a0 * uy.  Let waz := u0 * az - a0 * uz.
  Let wbx := u0 * bx - b0 * ux.  Let wby := u0 * by_ - b0 * uy. Let wbz := u0 * bz - b0 * uz.

  Lemma gram_as_H :
    u0^2 * gram u a b =
    mdot u u * (wax*wbx + way*wby + waz*wbz) + (wax*ux + way*uy + waz*uz) * (wbx*ux + wby*uy + wbz*uz).
  Proof. unfold gram, mdot, u, a, b, wax, way, waz, wbx, wby, wbz. cbn [vE vx vy vz]. ring. Qed.
End Cert.

Lemma H_cs mu vx_ vy_ vz_ px py pz qx qy qz :
  let H := fun ax ay az bx by_ bz =>
    mu * (ax*bx + ay*by_ + az*bz) + (ax*vx_ + ay*vy_ + az*vz_) * (bx*vx_ + by_*vy_ + bz*vz_) in
  H px py pz px py pz * H qx qy qz qx qy qz - (H px py pz qx qy qz)^2
  = mu^2 * ((py*qz - pz*qy)^2 + (pz*qx - px*qz)^2 + (px*qy - py*qx)^2)
    + mu * (((qx*vx_+qy*vy_+qz*vz_)*px - (px*vx_+py*vy_+pz*vz_)*qx)^2
          + ((qx*vx_+qy*vy_+qz*vz_)*py - (px*vx_+py*vy_+pz*vz_)*qy)^2
          + ((qx*vx_+qy*vy_+qz*vz_)*pz - (px*vx_+py*vy_+pz*vz_)*qz)^2).
Proof. intros H. unfold H. ring. Qed.

Lemma gram_cs u a b : vE u <> 0 -> 0 <= mdot u u ->
  (gram u a b)^2 <= gram u a a * gram u b b.
Proof.
  destruct u as [u0 ux uy uz], a as [a0 ax ay az], b as [b0 bx by_ bz]. cbn [vE]. intros Hu Hm.
  pose proof (gram_as_H u0 ux uy uz a0 ax ay az b0 bx by_ bz) as Hab.
  pose proof (gram_as_H u0 ux uy uz a0 ax ay az a0 ax ay az) as Haa.
  pose proof (gram_as_H u0 ux uy uz b0 bx by_ bz b0 bx by_ bz) as Hbb.
  set (mu := mdot (V4 u0 ux uy uz) (V4 u0 ux uy uz)) in *.
  pose proof (H_cs mu ux uy uz (u0*ax - a0*ux) (u0*ay - a0*uy) (u0*az - a0*uz)
                (u0*bx - b0*ux) (u0*by_ - b0*uy) (u0*bz - b0*uz)) as K.
  cbv zeta beta in K. rewrite <- Hab, <- Haa, <- Hbb in K.
  set (Gab := gram _ _ _) in *. set (Gaa := gram _ (V4 a0 ax ay az) (V4 a0 ax ay az)) in *.
  set (Gbb := gram _ (V4 b0 bx by_ bz) (V4 b0 bx by_ bz)) in *.
  match type of K with _ = ?r => assert (Hr : 0 <= r) end.
  { apply Rplus_le_le_0_compat; apply Rmult_le_pos; try apply pow2_ge_0; try exact Hm;
      repeat apply Rplus_le_le_0_compat; apply pow2_ge_0. }
  rewrite <- K in Hr.
  assert (H4 : 0 < u0^2 * u0^2) by (apply Rmult_lt_0_compat; apply pow2_pos; exact Hu).
  assert (E : u0^2 * Gaa * (u0^2 * Gbb) - (u0^2 * Gab)^2 = (u0^2 * u0^2) * (Gaa * Gbb - Gab^2)) by ring.
  rewrite E in Hr.
  assert (0 <= Gaa * Gbb - Gab^2); [|lra].
  destruct (Rle_dec 0 (Gaa * Gbb - Gab^2)) as [|N]; [assumption|exfalso].
  apply Rnot_le_lt in N. assert (u0^2 * u0^2 * (Gaa * Gbb - Gab^2) < 0); [|lra].
  replace 0 with (u0^2 * u0^2 * 0) by ring. apply Rmult_lt_compat_l; assumption.
Qed.

Lemma gram_nonneg u a : vE u <> 0 -> 0 <= mdot u u -> 0 <= gram u a a.
Proof.
  destruct u as [u0 ux uy uz], a as [a0 ax ay az]. cbn [vE]. intros Hu Hm.
  pose proof (gram_as_H u0 ux uy uz a0 ax ay az a0 ax ay az) as Haa.
  set (mu := mdot (V4 u0 ux uy uz) (V4 u0 ux uy uz)) in *. set (G := gram _ _ _) in *.
  assert (0 < u0^2) by (apply pow2_pos; exact Hu).
  assert (0 <= u0^2 * G).
  { rewrite Haa. apply Rplus_le_le_0_compat;
      [apply Rmult_le_pos; [exact Hm|repeat apply Rplus_le_le_0_compat; apply mul_self_nonneg]
      |apply mul_self_nonneg]. }
  destruct (Rle_dec 0 G) as [|N]; [assumption|exfalso]. apply Rnot_le_lt in N.
  clear Haa. assert (u0^2 * G < u0^2 * 0) by (apply Rmult_lt_compat_l; assumption). lra.
Qed.

(* future-directed causal vectors *)
Definition causal (a : v4) : Prop := 0 < vE a /\ 0 <= mdot a a.

Lemma causal_dot_nonneg a b : causal a -> causal b -> 0 <= mdot a b.
Proof.
  destruct a as [a0 ax ay az], b as [b0 bx by_ bz]. unfold causal, mdot. cbn [vE vx vy vz].
  intros [Ha Hma] [Hb Hmb].
  set (s := ax*bx + ay*by_ + az*bz).
  assert (Hl : s^2 <= (ax^2+ay^2+az^2) * (bx^2+by_^2+bz^2)).
  { assert (E : (ax^2+ay^2+az^2) * (bx^2+by_^2+bz^2) - s^2
                = (ay*bz - az*by_)^2 + (az*bx - ax*bz)^2 + (ax*by_ - ay*bx)^2) by (unfold s; ring).
    pose proof (pow2_ge_0 (ay*bz - az*by_)). pose proof (pow2_ge_0 (az*bx - ax*bz)).
    pose proof (pow2_ge_0 (ax*by_ - ay*bx)). lra. }
  assert (Hp : (ax^2+ay^2+az^2) * (bx^2+by_^2+bz^2) <= a0^2 * b0^2).
  { apply Rmult_le_compat; nra. }
  assert (s <= a0 * b0).
  { destruct (Rle_dec s (a0*b0)) as [|N]; [assumption|exfalso]. apply Rnot_le_lt in N.
    assert (0 < a0 * b0) by (apply Rmult_lt_0_compat; assumption). nra. }
  unfold s in *. lra.
Qed.

Lemma causal_add a b : causal a -> causal b -> causal (vadd a b).
Proof.
  intros Ha Hb. pose proof (causal_dot_nonneg a b Ha Hb) as Hab.
  destruct Ha as [Ha Hma], Hb as [Hb Hmb]. split.
  - unfold vadd. cbn [vE]. lra.
  - replace (mdot (vadd a b) (vadd a b)) with (mdot a a + mdot b b + 2 * mdot a b)
      by (v4_unfold; ring). lra.
Qed.

(* two future causal vectors with non-parallel three-momenta: (a.b)^2 > a^2 b^2 *)
Lemma pair_pos a b : causal a -> causal b -> 0 < cross2 a b ->
  0 < (mdot a b)^2 - mdot a a * mdot b b.
Proof.
  destruct a as [a0 ax ay az], b as [b0 bx by_ bz]. unfold causal, mdot, cross2.
  cbn [vE vx vy vz]. intros [Ha Hma] [Hb Hmb] Hc.
  set (wx := a0*bx - b0*ax). set (wy := a0*by_ - b0*ay). set (wz := a0*bz - b0*az).
  set (X := (a0*b0 - ax*bx - ay*by_ - az*bz)^2
            - (a0*a0 - ax*ax - ay*ay - az*az) * (b0*b0 - bx*bx - by_*by_ - bz*bz)).
  set (ma := a0*a0 - ax*ax - ay*ay - az*az) in *. set (mb := b0*b0 - bx*bx - by_*by_ - bz*bz) in *.
  set (W := wx^2 + wy^2 + wz^2).
  assert (E1 : a0^2 * X = ma * W + (wx*ax + wy*ay + wz*az)^2) by (unfold X, ma, mb, W, wx, wy, wz; ring).
  assert (E2 : b0^2 * X = mb * W + (wx*bx + wy*by_ + wz*bz)^2) by (unfold X, ma, mb, W, wx, wy, wz; ring).
  assert (E3 : X = W - ((ay*bz - az*by_)^2 + (az*bx - ax*bz)^2 + (ax*by_ - ay*bx)^2))
    by (unfold X, ma, mb, W, wx, wy, wz; ring).
  assert (E4 : W = a0 * (wx*bx + wy*by_ + wz*bz) - b0 * (wx*ax + wy*ay + wz*az))
    by (unfold W, wx, wy, wz; ring).
  assert (HW : 0 <= W) by (unfold W; nra).
  assert (Ha2 : 0 < a0^2) by nra. assert (Hb2 : 0 < b0^2) by nra.
  assert (HX : 0 <= X).
  { destruct (Rle_dec 0 X) as [|N]; [assumption|exfalso]. apply Rnot_le_lt in N.
    assert (0 <= a0^2 * X) by (rewrite E1; apply Rplus_le_le_0_compat; [apply Rmult_le_pos; assumption|apply pow2_ge_0]).
    nra. }
  destruct (Req_dec X 0) as [Z|NZ]; [exfalso|lra].
  rewrite Z in E1, E2. rewrite Rmult_0_r in E1, E2.
  set (da := wx*ax + wy*ay + wz*az) in *. set (db := wx*bx + wy*by_ + wz*bz) in *.
  assert (0 <= ma * W) by (apply Rmult_le_pos; assumption).
  assert (0 <= mb * W) by (apply Rmult_le_pos; assumption).
  assert (da^2 = 0) by (pose proof (pow2_ge_0 da); lra).
  assert (db^2 = 0) by (pose proof (pow2_ge_0 db); lra).
  assert (da = 0) by nra. assert (db = 0) by nra.
  assert (W = 0) by (rewrite E4; subst; nra). lra.
Qed.

(* ---- arccosine arguments ---- *)
Lemma cos_range C A B : 0 < A -> 0 < B -> C^2 <= A * B -> -1 <= C / (sqrt A * sqrt B) <= 1.
Proof.
  intros HA HB HC.
  assert (Ha : 0 < sqrt A) by now apply sqrt_lt_R0. assert (Hb : 0 < sqrt B) by now apply sqrt_lt_R0.
  assert (Hab : 0 < sqrt A * sqrt B) by now apply Rmult_lt_0_compat.
  assert (Hsq : (sqrt A * sqrt B)^2 = A * B).
  { replace ((sqrt A * sqrt B)^2) with ((sqrt A)^2 * (sqrt B)^2) by ring.
    rewrite !pow2_sqrt by lra. ring. }
  set (d := sqrt A * sqrt B) in *.
  assert (- d <= C <= d) by (split; nra).
  split.
  - apply Rmult_le_reg_r with d; [exact Hab|]. unfold Rdiv. rewrite Rmult_assoc, Rinv_l by lra. lra.
  - apply Rmult_le_reg_r with d; [exact Hab|]. unfold Rdiv. rewrite Rmult_assoc, Rinv_l by lra. lra.
Qed.

Lemma scale4 C A B : 0 < A -> 0 < B ->
  (4 * C) / (sqrt (4 * A) * sqrt (4 * B)) = C / (sqrt A * sqrt B).
Proof.
  intros HA HB.
  assert (S4 : forall x, 0 <= x -> sqrt (4 * x) = 2 * sqrt x).
  { intros x Hx. rewrite sqrt_mult by lra. replace 4 with (2 * 2) by ring.
    rewrite sqrt_square by lra. ring. }
  rewrite !S4 by lra.
  assert (0 < sqrt A) by now apply sqrt_lt_R0. assert (0 < sqrt B) by now apply sqrt_lt_R0.
  field. split; lra.
Qed.

(* Coplanar directions b, c and their sum a = b + c (Gram values B, C, D of a positive
   semidefinite form): the angle between b and c is the sum of the angles (a,b) and (a,c). *)
Lemma acos_sum B C D : 0 < B -> 0 < C -> 0 < B + C + 2 * D -> D^2 <= B * C ->
  acos ((B + D) / (sqrt (B + C + 2 * D) * sqrt B)) + acos ((C + D) / (sqrt (B + C + 2 * D) * sqrt C))
  = acos (D / (sqrt B * sqrt C)).
Proof.
  intros HB HC HA HD. pose proof HA as HA'. set (A := B + C + 2 * D) in HA |- *.
  set (sA := sqrt A). set (sB := sqrt B). set (sC := sqrt C).
  assert (HsA : 0 < sA) by now apply sqrt_lt_R0. assert (HsB : 0 < sB) by now apply sqrt_lt_R0.
  assert (HsC : 0 < sC) by now apply sqrt_lt_R0.
  assert (EA : sA^2 = A) by (apply pow2_sqrt; lra). assert (EB : sB^2 = B) by (apply pow2_sqrt; lra).
  assert (EC : sC^2 = C) by (apply pow2_sqrt; lra).
  set (x := (B + D) / (sA * sB)). set (y := (C + D) / (sA * sC)). set (z := D / (sB * sC)).
  assert (Hx : -1 <= x <= 1) by (apply cos_range; try assumption; unfold A; nra).
  assert (Hy : -1 <= y <= 1) by (apply cos_range; try assumption; unfold A; nra).
  set (K := sqrt (B * C - D^2)).
  assert (HK : 0 <= K) by apply sqrt_pos. assert (EK : K^2 = B * C - D^2) by (apply pow2_sqrt; lra).
  assert (Sx : sqrt (1 - x²) = K / (sA * sB)).
  { apply sqrt_lem_1.
    - unfold Rsqr. nra.
    - apply Rmult_le_pos; [exact HK|left; apply Rinv_0_lt_compat; nra].
    - unfold Rsqr, x.
      replace (K / (sA * sB) * (K / (sA * sB))) with (K^2 / (sA^2 * sB^2)) by (field; lra).
      replace ((B + D) / (sA * sB) * ((B + D) / (sA * sB))) with ((B+D)^2 / (sA^2 * sB^2)) by (field; lra).
      rewrite EK, EA, EB. unfold A. field. split; lra. }
  assert (Sy : sqrt (1 - y²) = K / (sA * sC)).
  { apply sqrt_lem_1.
    - unfold Rsqr. nra.
    - apply Rmult_le_pos; [exact HK|left; apply Rinv_0_lt_compat; nra].
    - unfold Rsqr, y.
      replace (K / (sA * sC) * (K / (sA * sC))) with (K^2 / (sA^2 * sC^2)) by (field; lra).
      replace ((C + D) / (sA * sC) * ((C + D) / (sA * sC))) with ((C+D)^2 / (sA^2 * sC^2)) by (field; lra).
      rewrite EK, EA, EC. unfold A. field. split; lra. }
  assert (Hcos : cos (acos x + acos y) = z).
  { rewrite cos_plus, !cos_acos, !sin_acos by assumption. rewrite Sx, Sy. unfold x, y, z.
    replace (K / (sA * sB) * (K / (sA * sC))) with (K^2 / (sA^2 * (sB * sC))) by (field; lra).
    replace ((B + D) / (sA * sB) * ((C + D) / (sA * sC))) with ((B+D)*(C+D) / (sA^2 * (sB * sC))) by (field; lra).
    rewrite EK, EA. unfold A. field. repeat split; lra. }
  assert (Hxy : 0 <= x + y).
  { replace (x + y) with ((sB + sC) * (sB * sC + D) / (sA * sB * sC)).
    - assert (0 <= sB * sC + D).
      { assert ((sB*sC)^2 = B * C) by (replace ((sB*sC)^2) with (sB^2 * sC^2) by ring; rewrite EB, EC; ring).
        assert (0 < sB * sC) by now apply Rmult_lt_0_compat. nra. }
      apply Rmult_le_pos; [apply Rmult_le_pos; lra|].
      left; apply Rinv_0_lt_compat. repeat apply Rmult_lt_0_compat; assumption.
    - unfold x, y. rewrite <- EB, <- EC. field. repeat split; lra. }
  pose proof (acos_bound x) as Bx. pose proof (acos_bound y) as By.
  assert (Hle : acos x + acos y <= PI).
  { destruct (Rle_dec (acos x + acos y) PI) as [|N]; [assumption|exfalso]. apply Rnot_le_lt in N.
    assert (L : cos (acos x) < cos (PI - acos y)) by (apply cos_decreasing_1; lra).
    rewrite cos_acos in L by assumption.
    replace (PI - acos y) with (- acos y + PI) in L by ring.
    rewrite neg_cos, cos_neg, cos_acos in L by assumption. lra. }
  rewrite <- Hcos. rewrite acos_cos; [reflexivity|lra].
Qed.

(* ---- reading a serialised angle tree ---- *)
Definition is_q (q : Q) (n : Z) (d : positive) : bool := Z.eqb (Qnum q) n && Pos.eqb (Qden q) d.

(* acos (L1^(-1/2) * L2^(-1/2) * N) *)
Definition acos_parts (t : expr) : option (expr * expr * expr) :=
  match t with
  | App HAcos [App HMul [App HPow [l1; Num q1]; App HPow [l2; Num q2]; n]] =>
      if is_q q1 (-1) 2 && is_q q2 (-1) 2 then Some (n, l1, l2) else None
  | _ => None
  end.

Definition neg_tree (t : expr) : expr := App HMul [Num ((-1) # 1); t].

(* polynomial trees: always well defined *)
Fixpoint poly_ok (e : expr) : bool :=
  match e with
  | Sym _ | Num _ => true
  | App HAdd l | App HMul l => forallb poly_ok l
  | App HPow [b; Num q] => poly_ok b && Pos.eqb (Qden q) 1 && Z.leb 0 (Qnum q)
  | _ => false
  end.

Lemma poly_ok_wd ρ : forall e, poly_ok e = true -> wdR ρ e.
Proof.
  induction e as [s|q|h args IH] using expr_ind'; intros H; [exact I|exact I|].
  assert (ALL : forallb poly_ok args = true ->
                (fix all (l : list expr) : Prop := match l with [] => True | x :: l' => wdR ρ x /\ all l' end) args).
  { clear H. induction IH as [|x xs Hx _ IHxs]; cbn; intros Hf; [exact I|].
    apply andb_true_iff in Hf as [H1 H2]. split; [apply Hx; exact H1|apply IHxs; exact H2]. }
  destruct h; cbn [poly_ok] in H; try discriminate.
  - cbn [wdR]. split; [now apply ALL|exact I].
  - cbn [wdR]. split; [now apply ALL|exact I].
  - destruct args as [|b [|[s|q|h' a'] [|]]]; try discriminate.
    apply andb_true_iff in H as [H H3]. apply andb_true_iff in H as [H1 H2].
    inversion IH as [|? ? Hb _]; subst.
    cbn [wdR]. split; [split; [auto|split; exact I]|].
    cbn [wd_head map hd0]. unfold wd_powQ. apply Pos.eqb_eq in H2. rewrite H2.
    destruct (Qnum q); try exact I. discriminate.
Qed.

Lemma is_q_eq q n d : is_q q n d = true -> q = (n # d)%Q.
Proof.
  destruct q as [a b]. unfold is_q. cbn. intros H. apply andb_true_iff in H as [H1 H2].
  apply Z.eqb_eq in H1. apply Pos.eqb_eq in H2. now subst.
Qed.

Lemma acos_parts_sound ρ t n l1 l2 : acos_parts t = Some (n, l1, l2) ->
  denR ρ t = acos (denR ρ n / (sqrt (denR ρ l1) * sqrt (denR ρ l2))) /\
  (wdR ρ n -> wdR ρ l1 -> wdR ρ l2 -> 0 < denR ρ l1 -> 0 < denR ρ l2 ->
   -1 <= denR ρ n / (sqrt (denR ρ l1) * sqrt (denR ρ l2)) <= 1 -> wdR ρ t).
Proof.
  intros H.
  unfold acos_parts in H.
  repeat match type of H with
         | context [match ?x with _ => _ end] => is_var x; destruct x; try discriminate H
         end.
  match type of H with context [is_q ?a _ _ && is_q ?b _ _] => rename a into q1; rename b into q2 end.
  destruct (is_q q1 (-1) 2) eqn:Q1; [|discriminate]. destruct (is_q q2 (-1) 2) eqn:Q2; [|discriminate].
  cbn [andb] in H. injection H as -> -> ->.
  apply is_q_eq in Q1, Q2. subst q1 q2.
  assert (E : denR ρ (App HAcos [App HMul [App HPow [l1; Num (-1 # 2)]; App HPow [l2; Num (-1 # 2)]; n]])
              = acos (/ (sqrt (denR ρ l1) * 1) * (/ (sqrt (denR ρ l2) * 1) * (denR ρ n * 1)))).
  { reflexivity. }
  split.
  - rewrite E. f_equal.
    destruct (Req_dec (sqrt (denR ρ l1)) 0) as [Z1|N1].
    { rewrite Z1. unfold Rdiv. rewrite !Rmult_0_l, Rinv_0. ring. }
    destruct (Req_dec (sqrt (denR ρ l2)) 0) as [Z2|N2].
    { rewrite Z2. unfold Rdiv. rewrite !Rmult_0_l, Rmult_0_r, Rinv_0. ring. }
    field. split; assumption.
  - intros Wn W1 W2 P1 P2 Hr.
    assert (Hs1 : 0 < sqrt (denR ρ l1)) by now apply sqrt_lt_R0.
    assert (Hs2 : 0 < sqrt (denR ρ l2)) by now apply sqrt_lt_R0.
    cbn [wdR]. cbn [wd_head map hd0 denR appR fold_right powQ wd_powQ Qden Qnum powZ Pos.to_nat Pos.iter_op Nat.add pow].
    repeat split; try assumption.
    + match goal with |- _ <= ?X => replace X with (denR ρ n / (sqrt (denR ρ l1) * sqrt (denR ρ l2))) end;
        [apply Hr|]. change (Pos.to_nat 1) with 1%nat. field. split; lra.
    + match goal with |- ?X <= _ => replace X with (denR ρ n / (sqrt (denR ρ l1) * sqrt (denR ρ l2))) end;
        [apply Hr|]. change (Pos.to_nat 1) with 1%nat. field. split; lra.
Qed.

Lemma neg_tree_sound ρ t : (wdR ρ t -> wdR ρ (neg_tree t)) /\ denR ρ (neg_tree t) = - denR ρ t.
Proof.
  split.
  - intros H. unfold neg_tree. cbn [wdR]. repeat split; try exact I. exact H.
  - unfold neg_tree. cbn [denR appR map fold_right]. unfold Q2R'. cbn [Qnum Qden]. field.
Qed.

(* The main interface: a tree acos(N / (sqrt L1 * sqrt L2)) whose parts evaluate to
   4*Cc, 4*A, 4*B (in either order of the two square roots). *)
Lemma tree_angle ρ t n l1 l2 Cc A B :
  acos_parts t = Some (n, l1, l2) ->
  poly_ok n = true -> poly_ok l1 = true -> poly_ok l2 = true ->
  denR ρ n = 4 * Cc ->
  ((denR ρ l1 = 4 * A /\ denR ρ l2 = 4 * B) \/ (denR ρ l1 = 4 * B /\ denR ρ l2 = 4 * A)) ->
  0 < A -> 0 < B -> Cc^2 <= A * B ->
  wdR ρ t /\ denR ρ t = acos (Cc / (sqrt A * sqrt B)).
Proof.
  intros Hp Pn P1 P2 En EL HA HB HC.
  destruct (acos_parts_sound ρ t n l1 l2 Hp) as [Ed Wd].
  assert (Earg : denR ρ n / (sqrt (denR ρ l1) * sqrt (denR ρ l2)) = Cc / (sqrt A * sqrt B)).
  { rewrite En. destruct EL as [[-> ->]|[-> ->]].
    - apply scale4; assumption.
    - rewrite (Rmult_comm (sqrt A)). apply scale4; assumption. }
  split.
  - apply Wd; try (apply poly_ok_wd; assumption).
    + destruct EL as [[-> _]|[-> _]]; lra.
    + destruct EL as [[_ ->]|[_ ->]]; lra.
    + rewrite Earg. apply cos_range; assumption.
  - rewrite Ed, Earg. reflexivity.
Qed.

(* ---- added for the equal-mass substitution route (C19 follow-up); nothing above changed ---- *)

(* what well-definedness of an angle tree says about its parts *)
Lemma acos_parts_wd_inv ρ t n l1 l2 : acos_parts t = Some (n, l1, l2) -> wdR ρ t ->
  0 < denR ρ l1 /\ 0 < denR ρ l2 /\
  -1 <= denR ρ n / (sqrt (denR ρ l1) * sqrt (denR ρ l2)) <= 1.
Proof.
  intros H.
  unfold acos_parts in H.
  repeat match type of H with
         | context [match ?x with _ => _ end] => is_var x; destruct x; try discriminate H
         end.
  match type of H with context [is_q ?a _ _ && is_q ?b _ _] => rename a into q1; rename b into q2 end.
  destruct (is_q q1 (-1) 2) eqn:Q1; [|discriminate]. destruct (is_q q2 (-1) 2) eqn:Q2; [|discriminate].
  cbn [andb] in H. injection H as -> -> ->.
  apply is_q_eq in Q1, Q2. subst q1 q2.
  cbn [wdR]. cbn [wd_head map hd0 denR appR fold_right powQ wd_powQ Qden Qnum powZ].
  intros [[[[[_ P1] [[_ P2] _]] _] _] Hr]. change (Pos.to_nat 1) with 1%nat in Hr.
  assert (Hs1 : 0 < sqrt (denR ρ l1)) by now apply sqrt_lt_R0.
  assert (Hs2 : 0 < sqrt (denR ρ l2)) by now apply sqrt_lt_R0.
  split; [exact P1|]. split; [exact P2|].
  replace (denR ρ n / (sqrt (denR ρ l1) * sqrt (denR ρ l2)))
    with (/ sqrt (denR ρ l1) ^ 1 * (/ sqrt (denR ρ l2) ^ 1 * (denR ρ n * 1))) by (field; split; lra).
  exact Hr.
Qed.

(* Two angle trees whose parts have the same values (the two square roots in either order),
   in possibly different environments: well-definedness and value carry over. *)
Lemma tree_transfer ρ ρ' t t' n l1 l2 n' l1' l2' :
  acos_parts t = Some (n, l1, l2) -> acos_parts t' = Some (n', l1', l2') ->
  poly_ok n' = true -> poly_ok l1' = true -> poly_ok l2' = true ->
  denR ρ' n' = denR ρ n ->
  ((denR ρ' l1' = denR ρ l1 /\ denR ρ' l2' = denR ρ l2) \/
   (denR ρ' l1' = denR ρ l2 /\ denR ρ' l2' = denR ρ l1)) ->
  wdR ρ t -> wdR ρ' t' /\ denR ρ' t' = denR ρ t.
Proof.
  intros Hp Hp' Pn P1 P2 En EL W.
  destruct (acos_parts_wd_inv ρ t n l1 l2 Hp W) as (Q1 & Q2 & Hr).
  destruct (acos_parts_sound ρ t n l1 l2 Hp) as [Ed _].
  destruct (acos_parts_sound ρ' t' n' l1' l2' Hp') as [Ed' Wd'].
  assert (Earg : denR ρ' n' / (sqrt (denR ρ' l1') * sqrt (denR ρ' l2'))
                 = denR ρ n / (sqrt (denR ρ l1) * sqrt (denR ρ l2))).
  { rewrite En. destruct EL as [[-> ->]|[-> ->]]; [reflexivity|].
    now rewrite (Rmult_comm (sqrt (denR ρ l2))). }
  split.
  - apply Wd'; try (apply poly_ok_wd; assumption).
    + destruct EL as [[-> _]|[-> _]]; assumption.
    + destruct EL as [[_ ->]|[_ ->]]; assumption.
    + rewrite Earg. exact Hr.
  - rewrite Ed', Ed, Earg. reflexivity.
Qed.
