(* Uneval.v — hand-written Gallina model of ampform's @unevaluated decorator
   (src/ampform/sympy/_decorator.py) over a class table [table] (regenerated from the
   package on every run, build/Cxx/ClassTable.v).  Models only; proofs are in
   Uneval_proofs.v.  SymPy core nodes (Add, Mul, Pow, Tuple, Piecewise, the helper
   array classes ...) are FREE constructors [App h args]: SymPy's automatic evaluation
   inside core constructors is not modelled (the correspondence run rebuilds both sides
   through SymPy's own constructors before comparing). *)
From Coq Require Import String List ZArith QArith Bool Arith Lia.
Import ListNotations.
Open Scope string_scope.

(* ---------- values of non-SymPy fields (argument(sympify=False)) ---------- *)
Inductive attr :=
| ANone                    (* None *)
| AStr (s : string)        (* a python str *)
| ACls (q : string)        (* a class, identified by module.qualname *)
| AObj (r : string)        (* any other hashable object (function, ...), identified by module.qualname *)
| AUnh (s : string).       (* an unhashable object (list, dict), identified by str(obj) *)

Inductive expr :=
| Sym (s : string)                                   (* Symbol: srepr string (name + assumptions) *)
| Num (q : Q)                                        (* Integer / Rational in lowest terms *)
| App (h : string) (args : list expr)                (* any other SymPy node: free constructor *)
| Unev (c : string) (args : list expr) (attrs : list attr).
     (* instance of a decorated class: SymPy fields in declaration order, non-SymPy fields in declaration order *)

Definition Q_eqb (p q : Q) : bool := Z.eqb (Qnum p) (Qnum q) && Pos.eqb (Qden p) (Qden q).

Definition attr_eqb (a b : attr) : bool :=
  match a, b with
  | ANone, ANone => true
  | AStr s, AStr t | ACls s, ACls t | AObj s, AObj t | AUnh s, AUnh t => String.eqb s t
  | _, _ => false
  end.

Definition list_eqb {A} (eqb : A -> A -> bool) : list A -> list A -> bool :=
  fix go xs ys :=
    match xs, ys with
    | [], [] => true
    | x :: xs', y :: ys' => eqb x y && go xs' ys'
    | _, _ => false
    end.

(* structural (Leibniz) equality *)
Fixpoint expr_eqb (a b : expr) {struct a} : bool :=
  match a, b with
  | Sym s, Sym t => String.eqb s t
  | Num p, Num q => Q_eqb p q
  | App h xs, App k ys =>
      String.eqb h k &&
      (fix go (xs ys : list expr) {struct xs} : bool :=
         match xs, ys with
         | [], [] => true
         | x :: xs', y :: ys' => expr_eqb x y && go xs' ys'
         | _, _ => false
         end) xs ys
  | Unev c xs ats, Unev d ys bts =>
      String.eqb c d &&
      (fix go (xs ys : list expr) {struct xs} : bool :=
         match xs, ys with
         | [], [] => true
         | x :: xs', y :: ys' => expr_eqb x y && go xs' ys'
         | _, _ => false
         end) xs ys && list_eqb attr_eqb ats bts
  | _, _ => false
  end.

(* ---------- class table ---------- *)
Inductive tattr := TAconst (a : attr) | TAfield (j : nat).

Inductive tmpl :=
| THole (i : nat)                                  (* i-th SymPy field of the instance *)
| TSym (s : string)                                (* a symbol created by evaluate() itself (Dummy, bound index) *)
| TNum (q : Q)
| TApp (h : string) (ts : list tmpl)
| TUnev (c : string) (ts : list tmpl) (tas : list tattr)
| TCall (j : nat) (ts : list tmpl).                (* self.<j-th non-SymPy field>( *ts) *)

Inductive dflt := DNone | DE (e : expr) | DA (a : attr).   (* DNone = dataclasses.MISSING *)
Record field := { fname : string; fsym : bool; fdef : dflt }.

(* evaluate() may inspect its arguments: one template per decidable case *)
Inductive guard :=
| GTrue
| GNumIs (i : nat) (q : Q)        (* SymPy field i is exactly this number *)
| GHasFree (i : nat).             (* SymPy field i has free symbols *)

(* how the class prints as NumPy code *)
Inductive nmode :=
| NNone                (* no _numpycode: folded form cannot be lambdified unless doit() is called first *)
| NPrintsEvaluate      (* _numpycode prints evaluate() / the definition *)
| NLayout.             (* own array-layout printer (matrix classes, array helpers) *)

Record cinfo := {
  cname : string;
  cfields : list field;
  cdoit : bool;                              (* implement_doit *)
  ctemplates : list (guard * tmpl);
  cnumpy : nmode;
  clatex : bool }.
Definition table := list cinfo.

Fixpoint lookup (T : table) (c : string) : option cinfo :=
  match T with
  | [] => None
  | ci :: T' => if String.eqb (cname ci) c then Some ci else lookup T' c
  end.

Definition nsym (ci : cinfo) : nat := length (filter fsym (cfields ci)).
Definition nattr (ci : cinfo) : nat := length (filter (fun f => negb (fsym f)) (cfields ci)).
Definition has_attr_fields (ci : cinfo) : bool := negb (Nat.eqb (nattr ci) 0).
Definition all_sympy (ci : cinfo) : bool := forallb fsym (cfields ci).

(* ---------- constructor: new_method ---------- *)
Inductive val := VE (e : expr) | VA (a : attr).
Definition err (m : string) : expr := App ("ERROR:" ++ m) [].

(* _extract_field_values with positional values only: zip fields with the values given,
   fill the remaining fields from their defaults, fail on a missing default. *)
Fixpoint fill (fs : list field) (vs : list val) : option (list val) :=
  match fs, vs with
  | [], [] => Some []
  | [], _ :: _ => None                                 (* too many positional arguments: ValueError *)
  | f :: fs', v :: vs' => option_map (cons v) (fill fs' vs')
  | f :: fs', [] =>
      match fdef f with
      | DNone => None                                  (* Missing constructor arguments: ValueError *)
      | DE e => option_map (cons (VE e)) (fill fs' [])
      | DA a => option_map (cons (VA a)) (fill fs' [])
      end
  end.

(* split the field-aligned values into sympified args (Expr.__new__(cls, *sympy_args))
   and the setattr'ed non-SymPy values.  A non-expression handed to a SymPy field or an
   expression handed to a non-SymPy field is outside the model (None). *)
Fixpoint split (fs : list field) (vs : list val) : option (list expr * list attr) :=
  match fs, vs with
  | [], [] => Some ([], [])
  | f :: fs', v :: vs' =>
      match split fs' vs' with
      | None => None
      | Some (es, ats) =>
          match fsym f, v with
          | true, VE e => Some (e :: es, ats)
          | false, VA a => Some (es, a :: ats)
          | _, _ => None
          end
      end
  | _, _ => None
  end.

Definition new (T : table) (c : string) (vs : list val) : expr :=
  match lookup T c with
  | None => err "class"
  | Some ci =>
      match fill (cfields ci) vs with
      | None => err "arguments"
      | Some full =>
          match split (cfields ci) full with
          | None => err "sympify"
          | Some (es, ats) => Unev c es ats
          end
      end
  end.

(* ---------- __getnewargs__ / _get_arguments ---------- *)
Inductive variant := Shallow | Deep.

(* the field values in declaration order *)
Fixpoint interleave (fs : list field) (es : list expr) (ats : list attr) : list val :=
  match fs with
  | [] => []
  | f :: fs' =>
      if fsym f then
        match es with e :: es' => VE e :: interleave fs' es' ats | [] => [] end
      else
        match ats with a :: ats' => VA a :: interleave fs' es ats' | [] => [] end
  end.

Definition attr_tag (a : attr) : string :=
  match a with
  | ANone => "py:None" | AStr s => "py:str:" ++ s | ACls q => "py:cls:" ++ q
  | AObj r => "py:obj:" ++ r | AUnh s => "py:unh:" ++ s
  end.

(* dataclasses.astuple: a field value that is itself a dataclass instance (= an instance of a
   decorated class) is converted, recursively, to a plain tuple of ITS field values; the
   constructor later sympifies that tuple to a Tuple.  Other values are kept (deepcopy). *)
Definition val_expr (v : val) : expr :=
  match v with VE e => e | VA a => App (attr_tag a) [] end.

Fixpoint deep_tuple (T : table) (e : expr) : expr :=
  match e with
  | Unev c args attrs =>
      match lookup T c with
      | None => e
      | Some ci =>
          App "sympy.core.containers.Tuple"
            (map val_expr (interleave (cfields ci) (map (deep_tuple T) args) attrs))
      end
  | _ => e
  end.

Definition is_unev (e : expr) : bool := match e with Unev _ _ _ => true | _ => false end.

Definition get_arguments (T : table) (v : variant) (e : expr) : list val :=
  match e with
  | Unev c args attrs =>
      match lookup T c with
      | None => []
      | Some ci =>
          match v with
          | Shallow => interleave (cfields ci) args attrs
          | Deep => interleave (cfields ci) (map (deep_tuple T) args) attrs
          end
      end
  | _ => []
  end.

(* self.func( *values) *)
Definition func (T : table) (e : expr) (vs : list val) : expr :=
  match e with
  | Unev c _ _ => new T c vs
  | App h _ => App h (flat_map (fun v => match v with VE x => [x] | VA _ => [] end) vs)
  | _ => e
  end.

(* expr.args : the SymPy arguments only *)
Definition args_of (e : expr) : list val :=
  match e with
  | Unev _ args _ | App _ args => map VE args
  | _ => []
  end.

(* ---------- xreplace ---------- *)
Definition rule := list (expr * expr).
Definition arule := list (attr * attr).

Fixpoint assoc_e (r : rule) (e : expr) : option expr :=
  match r with
  | [] => None
  | (k, v) :: r' => if expr_eqb k e then Some v else assoc_e r' e
  end.
Fixpoint assoc_a (r : arule) (a : attr) : option attr :=
  match r with
  | [] => None
  | (k, v) :: r' => if attr_eqb k a then Some v else assoc_a r' a
  end.

(* NOTE on `self in rule`: Python dict lookup uses __eq__/__hash__, i.e. CONTENT equality
   (see [eqb] below), not structural equality.  The two differ only on the conversion
   collisions of _get_hashable_object; [assoc_e] is parametrised by neither: the
   correspondence generator does not put colliding attribute values into rule keys. *)

Section Xreplace.
  Variable T : table.
  Variable v : variant.
  Variable r : rule.
  Variable ra : arule.

  Definition xr_attr (a : attr) : attr * bool :=
    match assoc_a ra a with Some b => (b, true) | None => (a, false) end.

  Definition hits {A} (l : list (A * bool)) : bool := existsb snd l.

  (* Basic._xreplace for App nodes and for decorated classes without non-SymPy fields;
     _xreplace_method for decorated classes with non-SymPy fields. *)
  Fixpoint xr (e : expr) : expr * bool :=
    match assoc_e r e with
    | Some w => (w, true)
    | None =>
        match e with
        | Sym _ | Num _ => (e, false)
        | App h args =>
            let rs := map xr args in
            if hits rs then (App h (map fst rs), true) else (e, false)
        | Unev c args attrs =>
            match lookup T c with
            | None => (e, false)
            | Some ci =>
                if has_attr_fields ci then
                  let rs := match v with
                            | Shallow => map xr args
                            | Deep => map (fun a => if is_unev a then (deep_tuple T a, false) else xr a) args
                            end in
                  let rt := map xr_attr attrs in
                  if hits rs || hits rt
                  then (new T c (interleave (cfields ci) (map fst rs) (map fst rt)), true)
                  else (e, false)
                else
                  let rs := map xr args in
                  if hits rs then (new T c (map VE (map fst rs)), true) else (e, false)
            end
        end
    end.

  Definition xreplace (e : expr) : expr := fst (xr e).
End Xreplace.

(* ---------- subs (one (old, new) pair; exact-match semantics of Basic._subs with the
   fallback; _eval_subs_method for classes with non-SymPy fields) ---------- *)
Section Subs.
  Variable T : table.
  Variable v : variant.
  Variable old new_ : expr.

  Fixpoint sb (e : expr) : expr * bool :=
    if expr_eqb e old then (new_, true) else
    match e with
    | Sym _ | Num _ => (e, false)
    | App h args =>
        let rs := map sb args in
        if existsb snd rs then (App h (map fst rs), true) else (e, false)
    | Unev c args attrs =>
        match lookup T c with
        | None => (e, false)
        | Some ci =>
            if has_attr_fields ci then
              let rs := match v with
                        | Shallow => map sb args
                        | Deep => map (fun a => if is_unev a then (deep_tuple T a, false) else sb a) args
                        end in
              if existsb snd rs
              then (new T c (interleave (cfields ci) (map fst rs) attrs), true)
              else (e, false)
            else
              let rs := map sb args in
              if existsb snd rs then (new T c (map VE (map fst rs)), true) else (e, false)
        end
    end.
  Definition subs1 (e : expr) : expr := fst (sb e).
End Subs.

(* ---------- _hashable_content, __eq__, __hash__ ---------- *)
Inductive cattr := CStr (s : string) | CObj (r : string).
Definition none_type_name : string := "builtins.NoneType".

(* _get_hashable_object *)
Definition conv (a : attr) : cattr :=
  match a with
  | ANone => CStr none_type_name
  | AStr s => CStr s
  | ACls q => CStr q
  | AObj r => CObj r
  | AUnh s => CStr s
  end.

Definition cattr_eqb (a b : cattr) : bool :=
  match a, b with
  | CStr s, CStr t | CObj s, CObj t => String.eqb s t
  | _, _ => false
  end.

(* content tree: what __eq__ and __hash__ see *)
Inductive cexpr :=
| CSym (s : string) | CNum (q : Q)
| CApp (h : string) (args : list cexpr)
| CUnev (c : string) (args : list cexpr) (cattrs : list cattr).

Fixpoint content (e : expr) : cexpr :=
  match e with
  | Sym s => CSym s
  | Num q => CNum q
  | App h args => CApp h (map content args)
  | Unev c args attrs => CUnev c (map content args) (map conv attrs)
  end.

(* Basic.__eq__ : same class and equal _hashable_content, recursively *)
Fixpoint eqb (a b : expr) {struct a} : bool :=
  match a, b with
  | Sym s, Sym t => String.eqb s t
  | Num p, Num q => Q_eqb p q
  | App h xs, App k ys =>
      String.eqb h k &&
      (fix go (xs ys : list expr) {struct xs} : bool :=
         match xs, ys with
         | [], [] => true
         | x :: xs', y :: ys' => eqb x y && go xs' ys'
         | _, _ => false
         end) xs ys
  | Unev c xs ats, Unev d ys bts =>
      String.eqb c d &&
      (fix go (xs ys : list expr) {struct xs} : bool :=
         match xs, ys with
         | [], [] => true
         | x :: xs', y :: ys' => eqb x y && go xs' ys'
         | _, _ => false
         end) xs ys && list_eqb cattr_eqb (map conv ats) (map conv bts)
  | _, _ => false
  end.

(* ---------- doit ---------- *)
Definition is_num (e : expr) : bool := match e with Num _ => true | _ => false end.

Fixpoint has_free (e : expr) : bool :=
  match e with
  | Sym _ => true
  | Num _ => false
  | App _ args | Unev _ args _ => existsb has_free args
  end.

Definition guard_holds (g : guard) (args : list expr) : bool :=
  match g with
  | GTrue => true
  | GNumIs i q => match nth_error args i with Some (Num p) => Q_eqb p q | _ => false end
  | GHasFree i => match nth_error args i with Some e => has_free e | None => false end
  end.

Fixpoint pick (ts : list (guard * tmpl)) (args : list expr) : option tmpl :=
  match ts with
  | [] => None
  | (g, t) :: ts' => if guard_holds g args then Some t else pick ts' args
  end.

Section Inst.
  Variable T : table.
  Variable args : list expr.
  Variable attrs : list attr.

  Definition inst_attr (ta : tattr) : attr :=
    match ta with TAconst a => a | TAfield j => nth j attrs ANone end.

  (* cls( *es): positional call of a class with expressions only *)
  Definition call_attr (a : attr) (es : list expr) : expr :=
    match a with
    | ACls q => match lookup T q with
                | Some _ => new T q (map VE es)
                | None => App ("call:" ++ q) es
                end
    | AObj f => App ("call:" ++ f) es
    | _ => err "call"
    end.

  Fixpoint inst (t : tmpl) : expr :=
    match t with
    | THole i => nth i args (err "hole")
    | TSym s => Sym s
    | TNum q => Num q
    | TApp h ts => App h (map inst ts)
    | TUnev c ts tas => Unev c (map inst ts) (map inst_attr tas)
    | TCall j ts => call_attr (nth j attrs ANone) (map inst ts)
    end.
End Inst.

(* doit_method: self.evaluate().doit(); Basic.doit for everything else (arg-wise).
   Fuel bounds the nesting of template expansions (rank of the class graph). *)
Fixpoint doitF (T : table) (n : nat) : expr -> expr :=
  match n with
  | O => fun e => e
  | S n' =>
      fix go (e : expr) : expr :=
        match e with
        | Sym _ | Num _ => e
        | App h args => App h (map go args)
        | Unev c args attrs =>
            match lookup T c with
            | None => e
            | Some ci =>
                if cdoit ci then
                  match pick (ctemplates ci) args with
                  | Some t => doitF T n' (inst T args attrs t)
                  | None => err ("no-template:" ++ c)
                  end
                else Unev c (map go args) attrs
            end
        end
  end.

(* ---------- unpickling: cls.__new__(cls, *x.__getnewargs__()) bottom-up ---------- *)
Fixpoint rebuild (T : table) (v : variant) (e : expr) : expr :=
  match e with
  | Sym _ | Num _ => e
  | App h args => App h (map (rebuild T v) args)
  | Unev c args attrs =>
      match lookup T c with
      | None => e
      | Some ci =>
          match v with
          | Shallow => new T c (interleave (cfields ci) (map (rebuild T v) args) attrs)
          | Deep => new T c (interleave (cfields ci)
                               (map (fun a => if is_unev a then deep_tuple T a else rebuild T v a) args) attrs)
          end
      end
  end.

(* ---------- well-formedness ---------- *)
(* instance: class known, field counts match *)
Fixpoint wfi (T : table) (e : expr) : bool :=
  match e with
  | Sym _ | Num _ => true
  | App _ args => forallb (wfi T) args
  | Unev c args attrs =>
      match lookup T c with
      | None => false
      | Some ci => Nat.eqb (length args) (nsym ci) && Nat.eqb (length attrs) (nattr ci)
                   && forallb (wfi T) args
      end
  end.

(* symbols of a template that evaluate() creates itself *)
Fixpoint tsyms (t : tmpl) : list string :=
  match t with
  | TSym s => [s]
  | THole _ | TNum _ => []
  | TApp _ ts | TUnev _ ts _ | TCall _ ts => flat_map tsyms ts
  end.

Fixpoint tmpl_ok (T : table) (ns na : nat) (t : tmpl) : bool :=
  match t with
  | THole i => Nat.ltb i ns
  | TSym _ | TNum _ => true
  | TApp _ ts => forallb (tmpl_ok T ns na) ts
  | TUnev c ts tas =>
      match lookup T c with
      | None => false
      | Some ci => Nat.eqb (length ts) (nsym ci) && Nat.eqb (length tas) (nattr ci)
                   && forallb (fun ta => match ta with TAconst _ => true | TAfield j => Nat.ltb j na end) tas
                   && forallb (tmpl_ok T ns na) ts
      end
  | TCall j ts => Nat.ltb j na && forallb (tmpl_ok T ns na) ts
  end.

Definition closed (e : expr) : bool := negb (has_free e).

Definition dflt_ok (T : table) (f : field) : bool :=
  match fdef f, fsym f with
  | DNone, _ => true
  | DE e, true => closed e && wfi T e
  | DA _, false => true
  | _, _ => false
  end.

Definition cinfo_ok (T : table) (ci : cinfo) : bool :=
  forallb (dflt_ok T) (cfields ci)
  && forallb (fun gt => tmpl_ok T (nsym ci) (nattr ci) (snd gt)) (ctemplates ci)
  && (cdoit ci || all_sympy ci)            (* a class without doit() loses its attributes in Basic.doit *)
  && (negb (cdoit ci) || negb (Nat.eqb (length (ctemplates ci)) 0)).

Fixpoint names_distinct (l : list string) : bool :=
  match l with
  | [] => true
  | x :: l' => negb (existsb (String.eqb x) l') && names_distinct l'
  end.

Definition wf_table (T : table) : bool :=
  names_distinct (map cname T) && forallb (cinfo_ok T) T.

(* all symbols that templates of T create themselves *)
Definition table_syms (T : table) : list string :=
  flat_map (fun ci => flat_map (fun gt => tsyms (snd gt)) (ctemplates ci)) T.

(* ---------- symbol substitutions (the maps of the commutation theorem) ---------- *)
Definition smap := list (string * expr).
Definition rule_of (s : smap) : rule := map (fun kv => (Sym (fst kv), snd kv)) s.

(* the map neither replaces nor introduces a template-created symbol *)
Fixpoint syms (e : expr) : list string :=
  match e with
  | Sym s => [s]
  | Num _ => []
  | App _ args | Unev _ args _ => flat_map syms args
  end.
Definition disjointb (a b : list string) : bool :=
  forallb (fun x => negb (existsb (String.eqb x) b)) a.
Definition avoids (T : table) (s : smap) : bool :=
  disjointb (map fst s) (table_syms T).

(* plain substitution of symbols *)
Fixpoint assoc_s (s : smap) (x : string) : option expr :=
  match s with
  | [] => None
  | (k, v) :: s' => if String.eqb k x then Some v else assoc_s s' x
  end.
Fixpoint sub (s : smap) (e : expr) : expr :=
  match e with
  | Sym x => match assoc_s s x with Some v => v | None => e end
  | Num _ => e
  | App h args => App h (map (sub s) args)
  | Unev c args attrs => Unev c (map (sub s) args) attrs
  end.

(* no node that doit() would unfold *)
Fixpoint unfolded (T : table) (e : expr) : bool :=
  match e with
  | Sym _ | Num _ => true
  | App _ args => forallb (unfolded T) args
  | Unev c args _ =>
      match lookup T c with
      | None => forallb (unfolded T) args
      | Some ci => negb (cdoit ci) && forallb (unfolded T) args
      end
  end.

(* guards keep their value under the map, all along the unfolding (decidable, computed) *)
Fixpoint stableF (T : table) (s : smap) (n : nat) : expr -> bool :=
  match n with
  | O => fun _ => true
  | S n' =>
      fix go (e : expr) : bool :=
        match e with
        | Sym _ | Num _ => true
        | App _ args => forallb go args
        | Unev c args attrs =>
            match lookup T c with
            | None => true
            | Some ci =>
                if cdoit ci then
                  forallb (fun gt => Bool.eqb (guard_holds (fst gt) args)
                                              (guard_holds (fst gt) (map (sub s) args)))
                          (ctemplates ci)
                  && match pick (ctemplates ci) args with
                     | Some t => stableF T s n' (inst T args attrs t)
                     | None => true
                     end
                else forallb go args
            end
        end
  end.

(* ---------- printing of results for the correspondence run ---------- *)
Require Import DecimalString.
Definition nat_str (n : nat) : string := NilZero.string_of_uint (Nat.to_uint n).
Definition z_str (z : Z) : string := NilZero.string_of_int (Z.to_int z).
Definition lp (s : string) : string := nat_str (String.length s) ++ ":" ++ s.

Definition show_attr (a : attr) : string :=
  match a with
  | ANone => "n" | AStr s => "s" ++ lp s | ACls q => "c" ++ lp q
  | AObj r => "o" ++ lp r | AUnh s => "u" ++ lp s
  end.

(* difference-list printer: linear in the size of the output *)
Definition lpk (s k : string) : string := nat_str (String.length s) ++ ":" ++ s ++ k.

Definition show_attr_k (a : attr) (k : string) : string :=
  match a with
  | ANone => ("n" ++ k) | AStr s => ("s" ++ lpk s k) | ACls q => ("c" ++ lpk q k)
  | AObj r => ("o" ++ lpk r k) | AUnh s => ("u" ++ lpk s k)
  end.

Fixpoint shows (e : expr) (k : string) : string :=
  match e with
  | Sym s => ("Y" ++ lpk s k)
  | Num q => ("N" ++ z_str (Qnum q) ++ "/" ++ z_str (Zpos (Qden q)) ++ ";" ++ k)
  | App h args =>
      "A" ++ (lpk h (nat_str (length args) ++ ";" ++
        (fix go (l : list expr) : string := match l with [] => k | x :: l' => shows x (go l') end) args))
  | Unev c args attrs =>
      "U" ++ (lpk c (nat_str (length args) ++ ";" ++
        (fix go (l : list expr) : string :=
           match l with
           | [] => nat_str (length attrs) ++ ";" ++ fold_right show_attr_k k attrs
           | x :: l' => shows x (go l')
           end) args))
  end.

Definition show (e : expr) : string := shows e "".
