(** Proofs about the model of [create_spin_range] in Spin.v (all spins, no bound). *)
From Coq Require Import ZArith List Bool Lia Sorted Permutation.
From AV Require Import Spin.
Import ListNotations.
Open Scope Z_scope.

Lemma spin_loop_spec hi : forall (n fuel : nat) (p : Z),
  (n < fuel)%nat -> p + 2 * Z.of_nat n = hi ->
  spin_loop fuel p hi 2 = map (fun k => p + 2 * Z.of_nat k) (seq 0 (S n)).
Proof.
  induction n as [|n IH]; intros fuel p Hf Hp.
  - destruct fuel as [|f]; [lia|]. simpl.
    replace (p <=? hi) with true by (symmetry; apply Z.leb_le; lia).
    f_equal; [lia|].
    destruct f as [|f]; [reflexivity|]. simpl.
    replace (p + 2 <=? hi) with false by (symmetry; apply Z.leb_gt; lia). reflexivity.
  - destruct fuel as [|f]; [lia|].
    change (spin_loop (S f) p hi 2) with (if p <=? hi then p :: spin_loop f (p + 2) hi 2 else []).
    replace (p <=? hi) with true by (symmetry; apply Z.leb_le; lia).
    rewrite (IH f (p + 2)) by lia.
    change (seq 0 (S (S n))) with (0%nat :: seq 1 (S n)).
    rewrite <- seq_shift, map_cons, map_map. f_equal; [simpl; lia|].
    apply map_ext. intros k. lia.
Qed.

Lemma spin_projections_half (s2 : nat) : spin_projections 2 (Z.of_nat s2) = full_range s2.
Proof.
  unfold spin_projections, full_range.
  rewrite (spin_loop_spec (Z.of_nat s2) s2) by lia. reflexivity.
Qed.

(** *** facts about the specification list *)
Lemma full_range_length s2 : length (full_range s2) = S s2.
Proof. unfold full_range. now rewrite map_length, seq_length. Qed.

Lemma nth_map_seq (f : nat -> Z) n k d : (k < n)%nat -> nth k (map f (seq 0 n)) d = f k.
Proof.
  intros Hk. rewrite (nth_indep _ d (f 0%nat)) by (rewrite map_length, seq_length; lia).
  rewrite map_nth, seq_nth by lia. reflexivity.
Qed.

Lemma full_range_nth s2 k : (k <= s2)%nat ->
  nth k (full_range s2) 0 = - Z.of_nat s2 + 2 * Z.of_nat k.
Proof. intros Hk. unfold full_range. rewrite nth_map_seq by lia. reflexivity. Qed.

Lemma full_range_In s2 x :
  In x (full_range s2) <->
  (- Z.of_nat s2 <= x <= Z.of_nat s2 /\ Z.even (x + Z.of_nat s2) = true).
Proof.
  unfold full_range. rewrite in_map_iff. split.
  - intros (k & <- & Hk). apply in_seq in Hk. split; [lia|].
    replace (- Z.of_nat s2 + 2 * Z.of_nat k + Z.of_nat s2) with (2 * Z.of_nat k) by lia.
    now rewrite Z.even_mul.
  - intros (Hr & He). apply Z.even_spec in He. destruct He as (q & Hq).
    exists (Z.to_nat q). split; [lia|]. apply in_seq. lia.
Qed.

Lemma full_range_step s2 k : (S k <= s2)%nat ->
  nth (S k) (full_range s2) 0 = nth k (full_range s2) 0 + 2.
Proof. intros. rewrite !full_range_nth by lia. lia. Qed.

Lemma map_seq_sorted (f : nat -> Z) : (forall i j, (i < j)%nat -> f i < f j) ->
  forall n a, StronglySorted Z.lt (map f (seq a n)).
Proof.
  intros Hf. induction n as [|n IH]; intros a; simpl; constructor.
  - apply IH.
  - apply Forall_forall. intros x Hx. apply in_map_iff in Hx. destruct Hx as (j & <- & Hj).
    apply in_seq in Hj. apply Hf. lia.
Qed.

Lemma full_range_sorted s2 : StronglySorted Z.lt (full_range s2).
Proof. apply map_seq_sorted. intros; lia. Qed.

Lemma sorted_NoDup (l : list Z) : StronglySorted Z.lt l -> NoDup l.
Proof.
  induction 1 as [|a l Hs IH Hf]; constructor; auto.
  intros Hin. rewrite Forall_forall in Hf. specialize (Hf _ Hin). lia.
Qed.

Lemma full_range_NoDup s2 : NoDup (full_range s2).
Proof. apply sorted_NoDup, full_range_sorted. Qed.

(** symmetric under negation: negating every entry gives the reversed list *)
Lemma full_range_sym s2 : map Z.opp (full_range s2) = rev (full_range s2).
Proof.
  apply (nth_ext _ _ 0 0).
  - now rewrite map_length, rev_length.
  - intros k Hk. rewrite map_length, full_range_length in Hk.
    rewrite rev_nth by (rewrite full_range_length; lia).
    rewrite full_range_length.
    rewrite (nth_indep _ 0 (Z.opp 0)) by (rewrite map_length, full_range_length; lia).
    rewrite map_nth, !full_range_nth by lia. lia.
Qed.

Lemma full_range_opp_perm s2 : Permutation (map Z.opp (full_range s2)) (full_range s2).
Proof. rewrite full_range_sym. symmetry. apply Permutation_rev. Qed.

Lemma memZ_In x l : memZ x l = true <-> In x l.
Proof.
  unfold memZ. rewrite existsb_exists. split.
  - intros (y & Hy & He). apply Z.eqb_eq in He. now subst.
  - intros H. exists x. split; auto. apply Z.eqb_refl.
Qed.

Lemma zero_in_full_range s2 : memZ 0 (full_range s2) = Nat.even s2.
Proof.
  destruct (Nat.even s2) eqn:E.
  - apply memZ_In, full_range_In. split; [lia|]. simpl.
    apply Nat.even_spec in E. destruct E as (q & ->).
    rewrite Nat2Z.inj_mul. now rewrite Z.even_mul.
  - destruct (memZ 0 (full_range s2)) eqn:M; auto.
    apply memZ_In, full_range_In in M. destruct M as (_ & M). simpl in M.
    apply Z.even_spec in M. destruct M as (q & Hq).
    assert (Nat.even s2 = true); [|congruence].
    apply Nat.even_spec. exists (Z.to_nat q). lia.
Qed.

Lemma remove_first_absent x l : ~ In x l -> remove_first x l = None.
Proof.
  induction l as [|y t IH]; simpl; auto. intros H.
  destruct (Z.eqb_spec y x); [exfalso; auto|].
  rewrite IH; auto.
Qed.

Lemma filter_id (f : Z -> bool) l : (forall z, In z l -> f z = true) -> filter f l = l.
Proof.
  induction l as [|y t IH]; simpl; auto. intros H.
  rewrite (H y) by auto. f_equal. apply IH. intros; apply H; auto.
Qed.

Lemma remove_first_NoDup x l : NoDup l -> In x l ->
  remove_first x l = Some (filter (fun y => negb (y =? x)) l).
Proof.
  induction 1 as [|y t Hy Hnd IH]; simpl; [tauto|]. intros [->|Hin].
  - rewrite Z.eqb_refl. simpl. f_equal. symmetry.
    apply filter_id. intros z Hz. destruct (Z.eqb_spec z x); auto. subst; tauto.
  - destruct (Z.eqb_spec y x); [subst; tauto|]. simpl. now rewrite IH.
Qed.

(** *** the theorems *)
Theorem spin_range_false_spec s2 : spin_range s2 false = Some (full_range s2).
Proof. unfold spin_range, spin_range_u. simpl. now rewrite spin_projections_half. Qed.

Theorem spin_range_nozero_odd s2 : Nat.odd s2 = true ->
  spin_range s2 true = Some (full_range s2).
Proof.
  intros Ho. unfold spin_range, spin_range_u. rewrite spin_projections_half.
  rewrite zero_in_full_range. rewrite <- Nat.negb_odd, Ho. cbn [negb].
  now rewrite andb_false_r.
Qed.

Theorem spin_range_nozero_zero : spin_range 0 true = Some [0].
Proof. reflexivity. Qed.

Theorem spin_range_nozero_even s2 : Nat.even s2 = true -> (0 < s2)%nat ->
  spin_range s2 true = Some (filter (fun y => negb (y =? 0)) (full_range s2)).
Proof.
  intros He Hp. unfold spin_range, spin_range_u. rewrite spin_projections_half.
  rewrite zero_in_full_range, He, full_range_length.
  replace (1 <? S s2)%nat with true by (symmetry; apply Nat.ltb_lt; lia). cbn [andb].
  apply remove_first_NoDup; [apply full_range_NoDup|].
  apply memZ_In. now rewrite zero_in_full_range.
Qed.

(** never an error, whatever the spin and the flag *)
Theorem spin_range_total s2 nz : exists l, spin_range s2 nz = Some l.
Proof.
  destruct nz; [|eexists; apply spin_range_false_spec].
  destruct (Nat.even s2) eqn:E.
  - destruct s2 as [|s2]; [eexists; reflexivity|].
    eexists; apply spin_range_nozero_even; auto; lia.
  - eexists; apply spin_range_nozero_odd. now rewrite <- Nat.negb_even, E.
Qed.

(** the code before ed25df5 raised for EVERY half-integer spin *)
Theorem spin_range_pinned_raises s2 : Nat.odd s2 = true -> spin_range_pinned s2 true = None.
Proof.
  intros Ho. unfold spin_range_pinned, spin_range_u_pinned. rewrite spin_projections_half.
  rewrite full_range_length.
  assert (0 < s2)%nat by (destruct s2; [discriminate|lia]).
  replace (1 <? S s2)%nat with true by (symmetry; apply Nat.ltb_lt; lia). cbn [andb].
  apply remove_first_absent. intros Hin. apply memZ_In in Hin.
  rewrite zero_in_full_range, <- Nat.negb_odd, Ho in Hin. discriminate.
Qed.
