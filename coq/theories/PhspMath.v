(* PhspMath.v — real algebra behind C20/C19: Källén, Kibble, PDG Dalitz limits.
   Independent of /repo; the link to the code is made in props/C20_lemmas.v through
   closed-form lemmas proved on the regenerated trees. *)
From Coq Require Import Reals Lra Psatz.
Open Scope R_scope.

Definition kallenR (x y z : R) : R := x^2 + y^2 + z^2 - 2*x*y - 2*y*z - 2*z*x.
Definition kibbleR (s1 s2 s3 m0 m1 m2 m3 : R) : R :=
  kallenR (kallenR s2 (m2^2) (m0^2)) (kallenR s3 (m3^2) (m0^2)) (kallenR s1 (m1^2) (m0^2)).
Definition mink (E px py pz : R) : R := E^2 - px^2 - py^2 - pz^2.

Lemma kallen_factor_sq x a b : kallenR x (a^2) (b^2) = (x - (a+b)^2) * (x - (a-b)^2).
Proof. unfold kallenR. ring. Qed.

(* PDG kinematics review, Dalitz plot limits, in ampform's index convention:
   s1 = m_23^2, s2 = m_13^2; energies of particles 1 and 3 in the (23) rest frame. *)
Definition Estar1 (s1 m0 m1 : R) : R := (m0^2 - s1 - m1^2) / (2 * sqrt s1).
Definition Estar3 (s1 m2 m3 : R) : R := (s1 - m2^2 + m3^2) / (2 * sqrt s1).
Definition s2lo (s1 m0 m1 m2 m3 : R) : R :=
  (Estar1 s1 m0 m1 + Estar3 s1 m2 m3)^2
  - (sqrt ((Estar1 s1 m0 m1)^2 - m1^2) + sqrt ((Estar3 s1 m2 m3)^2 - m3^2))^2.
Definition s2hi (s1 m0 m1 m2 m3 : R) : R :=
  (Estar1 s1 m0 m1 + Estar3 s1 m2 m3)^2
  - (sqrt ((Estar1 s1 m0 m1)^2 - m1^2) - sqrt ((Estar3 s1 m2 m3)^2 - m3^2))^2.

Lemma kibble_quadratic_aux r s2 m0 m1 m2 m3 u v :
  0 < r ->
  let E1 := (m0^2 - r^2 - m1^2) / (2 * r) in
  let E3 := (r^2 - m2^2 + m3^2) / (2 * r) in
  u^2 = E1^2 - m1^2 -> v^2 = E3^2 - m3^2 ->
  kibbleR (r^2) s2 (m0^2 + m1^2 + m2^2 + m3^2 - r^2 - s2) m0 m1 m2 m3
  = 16 * m0^2 * r^2 * ((s2 - ((E1+E3)^2 - (u+v)^2)) * (s2 - ((E1+E3)^2 - (u-v)^2))).
Proof.
  intros Hr E1 E3 Hu Hv.
  replace ((s2 - ((E1+E3)^2 - (u+v)^2)) * (s2 - ((E1+E3)^2 - (u-v)^2)))
    with ((s2 - (E1+E3)^2)^2 + 2 * (s2 - (E1+E3)^2) * (u^2 + v^2) + (u^2 - v^2)^2) by ring.
  rewrite Hu, Hv. unfold E1, E3, kibbleR, kallenR. field. lra.
Qed.

Lemma kibble_quadratic s1 s2 m0 m1 m2 m3 :
  0 < s1 ->
  0 <= (Estar1 s1 m0 m1)^2 - m1^2 -> 0 <= (Estar3 s1 m2 m3)^2 - m3^2 ->
  kibbleR s1 s2 (m0^2 + m1^2 + m2^2 + m3^2 - s1 - s2) m0 m1 m2 m3
  = 16 * m0^2 * s1 * ((s2 - s2lo s1 m0 m1 m2 m3) * (s2 - s2hi s1 m0 m1 m2 m3)).
Proof.
  intros Hs HU HV.
  assert (Hr : 0 < sqrt s1) by (apply sqrt_lt_R0; exact Hs).
  assert (Hrr : (sqrt s1)^2 = s1) by (apply pow2_sqrt; lra).
  pose proof (kibble_quadratic_aux (sqrt s1) s2 m0 m1 m2 m3
                (sqrt ((Estar1 s1 m0 m1)^2 - m1^2)) (sqrt ((Estar3 s1 m2 m3)^2 - m3^2)) Hr) as K.
  cbv zeta in K. rewrite Hrr in K. unfold s2lo, s2hi. unfold Estar1, Estar3 in *.
  apply K.
  - apply pow2_sqrt. exact HU.
  - apply pow2_sqrt. exact HV.
Qed.

(* Inside the bounding box both starred momenta are real. *)
Lemma box_real_momenta s1 m0 m1 m2 m3 :
  0 <= m1 -> 0 <= m2 -> 0 <= m3 -> m1 + m2 + m3 < m0 -> 0 < s1 ->
  (m2 + m3)^2 <= s1 <= (m0 - m1)^2 ->
  0 <= (Estar1 s1 m0 m1)^2 - m1^2 /\ 0 <= (Estar3 s1 m2 m3)^2 - m3^2.
Proof.
  intros H1 H2 H3 H0 Hs [Hlo Hhi].
  assert (Hr : 0 < sqrt s1) by (apply sqrt_lt_R0; exact Hs).
  assert (Hrr : s1 = (sqrt s1)^2) by (symmetry; apply pow2_sqrt; lra).
  split.
  - replace ((Estar1 s1 m0 m1)^2 - m1^2) with (kallenR s1 (m0^2) (m1^2) / (4 * s1)).
    + rewrite kallen_factor_sq.
      apply Rmult_le_pos; [|left; apply Rinv_0_lt_compat; lra].
      assert (s1 - (m0+m1)^2 <= 0) by nra. assert (s1 - (m0-m1)^2 <= 0) by lra. nra.
    + unfold Estar1, kallenR. remember (sqrt s1) as r eqn:Er. rewrite Hrr. field. lra.
  - replace ((Estar3 s1 m2 m3)^2 - m3^2) with (kallenR s1 (m2^2) (m3^2) / (4 * s1)).
    + rewrite kallen_factor_sq.
      apply Rmult_le_pos; [|left; apply Rinv_0_lt_compat; lra].
      assert (0 <= s1 - (m2+m3)^2) by lra. assert (0 <= s1 - (m2-m3)^2) by nra. nra.
    + unfold Estar3, kallenR. remember (sqrt s1) as r eqn:Er. rewrite Hrr. field. lra.
Qed.

Lemma s2lo_le_hi s1 m0 m1 m2 m3 : s2lo s1 m0 m1 m2 m3 <= s2hi s1 m0 m1 m2 m3.
Proof.
  unfold s2lo, s2hi.
  pose proof (sqrt_pos ((Estar1 s1 m0 m1)^2 - m1^2)).
  pose proof (sqrt_pos ((Estar3 s1 m2 m3)^2 - m3^2)).
  nra.
Qed.

Theorem kibble_nonpos_iff_dalitz_limits s1 s2 m0 m1 m2 m3 :
  0 <= m1 -> 0 <= m2 -> 0 <= m3 -> m1 + m2 + m3 < m0 -> 0 < s1 ->
  (m2 + m3)^2 <= s1 <= (m0 - m1)^2 ->
  (kibbleR s1 s2 (m0^2 + m1^2 + m2^2 + m3^2 - s1 - s2) m0 m1 m2 m3 <= 0
   <-> s2lo s1 m0 m1 m2 m3 <= s2 <= s2hi s1 m0 m1 m2 m3).
Proof.
  intros H1 H2 H3 H0 Hs Hbox.
  destruct (box_real_momenta s1 m0 m1 m2 m3 H1 H2 H3 H0 Hs Hbox) as [HU HV].
  rewrite (kibble_quadratic s1 s2 m0 m1 m2 m3 Hs HU HV).
  pose proof (s2lo_le_hi s1 m0 m1 m2 m3) as Hle.
  set (a := s2lo s1 m0 m1 m2 m3) in *. set (b := s2hi s1 m0 m1 m2 m3) in *.
  assert (Hm0 : 0 < m0^2) by (apply pow_lt; lra).
  assert (Hc : 0 < 16 * m0^2 * s1) by (apply Rmult_lt_0_compat; lra).
  set (c := 16 * m0^2 * s1) in *.
  split.
  - intros Hk.
    assert (Hp : (s2 - a) * (s2 - b) <= 0).
    { destruct (Rle_dec ((s2 - a) * (s2 - b)) 0) as [|N]; [assumption|].
      exfalso. apply Rnot_le_lt in N. assert (0 < c * ((s2 - a) * (s2 - b))) by (apply Rmult_lt_0_compat; assumption). lra. }
    split.
    + destruct (Rle_dec a s2); [assumption|]. exfalso. apply Rnot_le_lt in n.
      assert (0 < (a - s2) * (b - s2)) by (apply Rmult_lt_0_compat; lra). nra.
    + destruct (Rle_dec s2 b); [assumption|]. exfalso. apply Rnot_le_lt in n.
      assert (0 < (s2 - a) * (s2 - b)) by (apply Rmult_lt_0_compat; lra). nra.
  - intros [Ha Hb].
    assert ((s2 - a) * (s2 - b) <= 0) by nra.
    assert (0 <= c * (- ((s2 - a) * (s2 - b)))) by (apply Rmult_le_pos; lra). lra.
Qed.
