(* Rename.v — hand-written Gallina model of ampform.helicity.HelicityModel.rename_symbols
   (src/ampform/helicity/__init__.py) for property C17.  Independent of /repo; tied to it
   by the correspondence run of runners/C17.py (bridge/corr_C17.py).  No proofs here
   (proofs: Rename_proofs.v).

   Encoding (bridge/ser.py, structural mode, assum=True, atomic_indexed=False):
     * a SymPy Symbol is [Sym "name"] or [Sym "name|k1=1,k2=0,..."]: its identity is
       (name, assumptions); the part from the first '|' on is the assumption suffix;
     * an amplitude symbol is [App HIndexed [App (HOther "IndexedBase") [Sym label]; idx...]]
       (NOT atomic: SymPy's xreplace descends into it);
     * [App (HOther "PoolSum") (body :: [App HTuple [Sym idx; App HTuple values]; ...])]
       is ampform.sympy.PoolSum, whose summation indices are bound: PoolSum._xreplace
       drops them from the rule and PoolSum.free_symbols removes them. *)
From Coq Require Import Ascii.
From AV Require Import Ast.
Open Scope string_scope.

(* ------------------------------------------------------------------ symbols *)
Definition bar : Ascii.ascii := "|"%char.

Fixpoint name_of (s : string) : string :=
  match s with
  | EmptyString => EmptyString
  | String c t => if Ascii.eqb c bar then EmptyString else String c (name_of t)
  end.

Fixpoint assum_of (s : string) : string :=
  match s with
  | EmptyString => EmptyString
  | String c t => if Ascii.eqb c bar then s else assum_of t
  end.

(* sp.Symbol(new_name, **s.assumptions0) *)
Definition mk_sym (new_name assum : string) : string := new_name ++ assum.

Fixpoint no_bar (s : string) : bool :=
  match s with
  | EmptyString => true
  | String c t => negb (Ascii.eqb c bar) && no_bar t
  end.

Definition mem (s : string) (l : list string) : bool := existsb (String.eqb s) l.

(* ------------------------------------------------------------------ trees *)
Definition is_poolsum (h : head) : bool :=
  match h with HOther s => String.eqb s "PoolSum" | _ => false end.

Definition binder_of (e : expr) : list string :=
  match e with App HTuple (Sym i :: _) => [i] | _ => [] end.

(* the summation indices bound by a node *)
Definition binders (h : head) (args : list expr) : list string :=
  if is_poolsum h then flat_map binder_of (tl args) else [].

(* Basic.xreplace with a Symbol -> Symbol rule [sigma]; [b] = symbols bound by enclosing
   PoolSums (removed from the rule there). *)
Fixpoint xr (sigma : string -> string) (b : list string) (e : expr) : expr :=
  match e with
  | Sym s => if mem s b then e else Sym (sigma s)
  | Num _ => e
  | App h args => App h (map (xr sigma (binders h args ++ b)) args)
  end.

(* Basic.free_symbols (Symbols only; see the domain restriction [no_indexed] below) *)
Fixpoint fs (b : list string) (e : expr) : list string :=
  match e with
  | Sym s => if mem s b then [] else [s]
  | Num _ => []
  | App h args => flat_map (fs (binders h args ++ b)) args
  end.

(* all symbols, bound or not *)
Fixpoint syms (e : expr) : list string :=
  match e with
  | Sym s => [s]
  | Num _ => []
  | App h args => flat_map syms args
  end.

(* all bound summation indices occurring anywhere *)
Fixpoint all_binders (e : expr) : list string :=
  match e with
  | App h args => binders h args ++ flat_map all_binders args
  | _ => []
  end.

Fixpoint has_head (p : head -> bool) (e : expr) : bool :=
  match e with
  | App h args => p h || existsb (has_head p) args
  | _ => false
  end.

Definition is_indexed (h : head) : bool :=
  match h with
  | HIndexed => true
  | HOther s => String.eqb s "IndexedBase"
  | _ => false
  end.

(* ------------------------------------------------------------------ dictionaries *)
Section Dict.
  Context {K V : Type} (eqb : K -> K -> bool).

  (* d[k] = v : an existing key keeps its position (and the key object), the value is
     overwritten; a new key is appended *)
  Fixpoint dupd (k : K) (v : V) (d : list (K * V)) : list (K * V) :=
    match d with
    | [] => [(k, v)]
    | (k', v') :: t => if eqb k k' then (k', v) :: t else (k', v') :: dupd k v t
    end.

  (* {k: v for k, v in l} *)
  Definition dict_of (l : list (K * V)) : list (K * V) :=
    fold_left (fun d kv => dupd (fst kv) (snd kv) d) l [].

  Fixpoint dget (k : K) (d : list (K * V)) : option V :=
    match d with
    | [] => None
    | (k', v) :: t => if eqb k k' then Some v else dget k t
    end.
End Dict.

(* sorted(..., key=rk): stable insertion sort *)
Section Sort.
  Context {A : Type} (rk : A -> nat).
  Fixpoint ins (x : A) (l : list A) : list A :=
    match l with
    | [] => [x]
    | y :: t => if Nat.leb (rk x) (rk y) then x :: l else y :: ins x t
    end.
  Definition isort (l : list A) : list A := fold_right ins [] l.
End Sort.

(* ------------------------------------------------------------------ the model *)
Record model := Model {
  intensity : expr;
  amplitudes : list (expr * expr);            (* Indexed |-> definition *)
  parameter_defaults : list (expr * string);  (* Basic |-> repr of the python value *)
  kinematic_variables : list (string * expr); (* Symbol |-> expression *)
  components : list (string * expr)           (* str |-> expression *)
}.

(* renames = dict(renames): for a repeated old name the LAST pair wins *)
Fixpoint rget (r : list (string * string)) (n : string) : option string :=
  match r with
  | [] => None
  | (k, v) :: t =>
      match rget t n with
      | Some x => Some x
      | None => if String.eqb k n then Some v else None
      end
  end.

(* the renaming of one symbol prescribed by the map (name changed, assumptions kept) *)
Definition ren (r : list (string * string)) (s : string) : string :=
  match rget r (name_of s) with
  | Some n => mk_sym n (assum_of s)
  | None => s
  end.

(* symbol_mapping restricted to the collected symbols, as a total function *)
Definition sigma (r : list (string * string)) (col : list string) (s : string) : string :=
  if mem s col then ren r s else s.

(* the Symbol keys of parameter_defaults: {par for par in parameter_defaults if isinstance(par, sp.Symbol)} *)
Definition par_syms (k : expr) : list string := match k with Sym s => [s] | _ => [] end.

(* symbol_mapping.get(par, par) for a key of parameter_defaults *)
Definition kmap (sg : string -> string) (k : expr) : expr :=
  match k with Sym s => Sym (sg s) | _ => k end.

Section Rename.
  (* [unfold I] = unfold_poolsums(I.evaluate()) of HelicityModel.expression (ampform.sympy.PoolSum,
     SymPy's Add; trusted / C18); [nrank n] = rank of the NAME n in the total preorder the attrs
     converters _order_symbol_mapping / _order_component_mapping sort by (natural_sorting, ties
     broken as the converter does); [arank a] = the same for an amplitude key under
     _order_amplitudes.  The correspondence run extracts both preorders from the converters. *)
  Variable unfold : expr -> expr.
  Variable nrank : string -> nat.
  Variable arank : expr -> nat.

  (* intensity.xreplace(self.amplitudes): a dict of Indexed -> Expr, looked up top-down *)
  Fixpoint subst (amps : list (expr * expr)) (e : expr) : expr :=
    match dget expr_eqb e amps with
    | Some v => v
    | None => match e with App h args => App h (map (subst amps) args) | _ => e end
    end.

  Definition expression (m : model) : expr :=
    subst (amplitudes m) (unfold (intensity m)).

  (* HelicityModel.__collect_symbols: free symbols of the expression, the kinematic variables and
     the free symbols of their definitions, and the Symbol keys of parameter_defaults (a parameter
     may occur nowhere else, e.g. the parent mass with scalar_initial_state_mass=True).  The
     symbols of `components` are NOT collected. *)
  Definition collect (m : model) : list string :=
    fs [] (expression m)
      ++ map fst (kinematic_variables m)
      ++ flat_map (fun kv => fs [] (snd kv)) (kinematic_variables m)
      ++ flat_map (fun kv => par_syms (fst kv)) (parameter_defaults m).

  Definition sigma_of (m : model) (r : list (string * string)) : string -> string :=
    sigma r (collect m).

  (* the attrs converters *)
  Definition order_amplitudes (d : list (expr * expr)) := isort (fun kv => arank (fst kv)) d.
  Definition order_symbol_mapping (d : list (string * expr)) :=
    isort (fun kv => nrank (name_of (fst kv))) d.
  Definition order_component_mapping (d : list (string * expr)) :=
    isort (fun kv => nrank (fst kv)) d.

  Definition rename (m : model) (r : list (string * string)) : model :=
    match r with
    | [] => m
    | _ =>
        let sg := sigma_of m r in
        {| intensity := xr sg [] (intensity m);
           amplitudes :=
             order_amplitudes
               (dict_of expr_eqb (map (fun kv => (fst kv, xr sg [] (snd kv))) (amplitudes m)));
           parameter_defaults :=
             dict_of expr_eqb (map (fun kv => (kmap sg (fst kv), snd kv)) (parameter_defaults m));
           kinematic_variables :=
             order_symbol_mapping
               (dict_of String.eqb
                  (map (fun kv => (sg (fst kv), xr sg [] (snd kv))) (kinematic_variables m)));
           components :=
             order_component_mapping
               (dict_of String.eqb (map (fun kv => (fst kv, xr sg [] (snd kv))) (components m)))
        |}
    end.

  (* C01-style closure: every free symbol of the expression is a parameter or a kinematic
     variable, and never both *)
  Definition is_par (m : model) (s : string) : bool :=
    existsb (fun kv => expr_eqb (fst kv) (Sym s)) (parameter_defaults m).
  Definition is_kin (m : model) (s : string) : bool :=
    existsb (fun kv => String.eqb (fst kv) s) (kinematic_variables m).
  Definition closed (m : model) : bool :=
    forallb (fun s => xorb (is_par m s) (is_kin m s)) (fs [] (expression m)).

  (* domain of the model: nothing Indexed is left in the expression or in the kinematic
     variables (Indexed.free_symbols contains non-Symbols) *)
  Definition in_domain (m : model) : bool :=
    negb (has_head is_indexed (expression m))
    && forallb (fun kv => negb (has_head is_indexed (snd kv))) (kinematic_variables m).
End Rename.
