(* Closure.v — structural layer for C01: free symbols, simultaneous symbol replacement,
   a denotation that is generic in the value type and in the meaning of every head, and the
   executable closure checker that is run (vm_compute) on the models regenerated from /repo.
   Hand-written, independent of /repo.  Proofs are in Closure_proofs.v. *)
From Coq Require Export Ascii.
From AV Require Export Ast.
Open Scope string_scope.

(* Symbols occurring in a tree.  A python-string leaf [App HStr [Sym s]] is data, not a
   symbol.  In the structural serialisation a SymPy symbol is [Sym "name|assumptions"], an
   Indexed amplitude symbol is the atom [Sym "@A^..[..]"], a four-momentum ArraySymbol
   contributes its name symbol ("p0", ...). *)
Fixpoint syms (e : expr) : list string :=
  match e with
  | Sym s => [s]
  | Num _ => []
  | App HStr _ => []
  | App _ args =>
      (fix go (l : list expr) : list string :=
         match l with [] => [] | x :: l' => (syms x ++ go l')%list end) args
  end.

Fixpoint assoc {A} (l : list (string * A)) (s : string) : option A :=
  match l with
  | [] => None
  | (k, v) :: l' => if String.eqb k s then Some v else assoc l' s
  end.

(* SymPy's xreplace restricted to symbol keys: simultaneous, single pass. *)
Fixpoint xrepl (σ : list (string * expr)) (e : expr) : expr :=
  match e with
  | Sym s => match assoc σ s with Some t => t | None => e end
  | Num _ => e
  | App HStr _ => e
  | App h args => App h (map (xrepl σ) args)
  end.

(* Denotation, generic in the value type [V], the meaning [N] of numbers and the meaning [F]
   of EVERY head (SymPy functions, ampform's unevaluated classes, array operations, ...). *)
Section Den.
  Variable V : Type.
  Variable N : Q -> V.
  Variable F : head -> list V -> V.
  Fixpoint gden (ρ : string -> V) (e : expr) : V :=
    match e with
    | Sym s => ρ s
    | Num q => N q
    | App HStr _ => F HStr []
    | App h args => F h (map (gden ρ) args)
    end.
End Den.

(* The part of a HelicityModel the property talks about. *)
Record model := {
  unfolded : expr;                     (* intensity with PoolSums unfolded, amplitudes still symbols *)
  amps : list (string * expr);         (* model.amplitudes *)
  params : list string;                (* keys of model.parameter_defaults *)
  kinvars : list (string * expr);      (* model.kinematic_variables *)
  momenta : list string                (* final-state four-momentum symbols *)
}.

Definition expression (m : model) : expr := xrepl (amps m) (unfolded m).
Definition full_expression (m : model) : expr := xrepl (kinvars m) (expression m).

Definition mem (s : string) (l : list string) : bool := existsb (String.eqb s) l.
Definition is_amp (s : string) : bool :=
  match s with String c _ => Ascii.eqb c "@"%char | EmptyString => false end.

Definition sym_ok (m : model) (s : string) : bool :=
  xorb (mem s (params m)) (mem s (map fst (kinvars m))).
Definition amp_ok (m : model) (s : string) : bool :=
  negb (is_amp s) || mem s (map fst (amps m)).
Definition kin_ok (m : model) (ke : string * expr) : bool :=
  forallb (fun s => mem s (params m) || mem s (momenta m)) (syms (snd ke)).

Definition closure_ok (m : model) : bool :=
  forallb (sym_ok m) (syms (expression m))
  && forallb (amp_ok m) (syms (unfolded m))
  && forallb (kin_ok m) (kinvars m).

(* Diagnostics for the failing-input search (not used in theorems). *)
Definition undefined_or_double (m : model) : list string :=
  filter (fun s => negb (sym_ok m s)) (syms (expression m)).
Definition kin_leaks (m : model) : list (string * list string) :=
  flat_map (fun ke =>
    match filter (fun s => negb (mem s (params m) || mem s (momenta m))) (syms (snd ke)) with
    | [] => [] | l => [(fst ke, l)] end) (kinvars m).
