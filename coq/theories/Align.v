(** Model of the aligned amplitude built by [AxisAngleAlignment.formulate_amplitude]
    (formulate_axis_angle_alignment / formulate_rotation_chain / formulate_helicity_rotation_chain /
    formulate_wigner_rotation / formulate_helicity_rotation) and by
    [dpd._formulate_aligned_amplitude] for ONE topology, and of the top-level intensity
    [PoolSum(Abs(amplitude)**2, *collect_spin_projections(reaction).items())].
    MODEL ONLY; proofs in Align_proofs.v.  All spin projections are in units of 1/2.

    For every final-state particle (DPD: also the initial state) the code produces a "chain":
      A[..., sign * lambda, ...] * W_0(lambda -> mu) * W_1(mu -> nu) * ... * W_k(.. -> m)
    summed over lambda, mu, nu, ... (each with its own pool), where m is the outer spin
    projection that the intensity sums over, and each W is a SymPy [WignerD] factor. *)
From Coq Require Import Reals ZArith List Bool String.
From Coquelicot Require Import Complex.
From AV Require Import Spin Rep.
Import ListNotations.
Open Scope Z_scope.

Inductive lkind :=
| LD    (* factor WignerD(j, m = next index, mp = this summed index, angles): axis-angle, DPD state 0 *)
| LDt   (* factor WignerD(j, m = this summed index, mp = next index, angles): DPD states 1, 2, 3 *)
| LOne. (* factor 1: DPD for j = 0 *)

Record link := { l_kind : lkind; l_ang : nat (* identifies the angle triple *) }.

Record pchain := {
  pc_name : string;
  pc_s2 : nat;                       (* 2 * spin of the particle *)
  pc_massless : bool;
  pc_from_range : bool;              (* summed pools come from create_spin_range (axis-angle) *)
  pc_neg : bool;                     (* amplitude is indexed by MINUS the first summed index *)
  pc_outer : list Z;                 (* pool of the outer (intensity) sum for this particle *)
  pc_first : list Z;                 (* pool of the summed index that indexes the amplitude *)
  pc_link : link;                    (* factor linking the first summed index to the next one *)
  pc_more : list (list Z * link)     (* further summed indices: pool and outgoing factor *)
}.

Record adesc := {
  ad_pass : list (list Z);           (* outer pools used to index the amplitude directly (axis-angle: initial state) *)
  ad_chains : list pchain
}.

Definition sgn (c : pchain) (a : Z) : Z := if pc_neg c then - a else a.
Fixpoint signed (cs : list pchain) (a : list Z) : list Z :=
  match cs, a with
  | c :: cs', ai :: a' => sgn c ai :: signed cs' a'
  | _, _ => []
  end.

Section Den.
  (** SymPy's [Rotation.D(j, m, mp, alpha, beta, gamma)] as an opaque function of
      (2j, 2m, 2mp, angle id); [Rotation.d(j, m, mp, beta) = D(j, m, mp, 0, beta, 0)]. *)
  Variable D : nat -> Z -> Z -> nat -> C.
  Open Scope R_scope.
  Open Scope C_scope.

  Definition Ulink (j2 : nat) (l : link) (a x : Z) : C :=
    match l_kind l with
    | LD => D j2 x a (l_ang l)
    | LDt => D j2 a x (l_ang l)
    | LOne => 1
    end.

  (** flat form = the nested sums of the implementation's inner PoolSum, in its order, with the
      product of all factors as the body ([w] accumulates the product, [k] is the rest) *)
  Fixpoint chain_flat (j2 : nat) (l : link) (more : list (list Z * link)) (a x : Z) (w : C)
           (k : C -> C) : C :=
    match more with
    | [] => k (w * Ulink j2 l a x)
    | (Q, l') :: more' => sumL Q (fun q => chain_flat j2 l' more' q x (w * Ulink j2 l a q) k)
    end.

  Fixpoint amp_flat (cs : list pchain) (x : list Z) (A : list Z -> C) (w : C) : C :=
    match cs, x with
    | c :: cs', xi :: x' =>
        sumL (pc_first c) (fun a =>
          chain_flat (pc_s2 c) (pc_link c) (pc_more c) a xi w
            (fun w' => amp_flat cs' x' (fun idx => A (sgn c a :: idx)) w'))
    | _, _ => A [] * w
    end.

  (** nested ("matrix") form: the chain of one particle as a product of matrices *)
  Fixpoint Uchain (j2 : nat) (l : link) (more : list (list Z * link)) (a x : Z) : C :=
    match more with
    | [] => Ulink j2 l a x
    | (Q, l') :: more' => sumL Q (fun q => Ulink j2 l a q * Uchain j2 l' more' q x)
    end.

  Definition Uof (c : pchain) : Z -> Z -> C := Uchain (pc_s2 c) (pc_link c) (pc_more c).

  Definition amp_nested (cs : list pchain) (x : list Z) (A : list Z -> C) : C :=
    msum (map pc_first cs) (fun a => A (signed cs a) * tprod (map Uof cs) a x).

  (** intensities; the amplitude tensor [A pass final] is arbitrary *)
  Definition intensity_aligned (d : adesc) (A : list Z -> list Z -> C) : C :=
    msum (ad_pass d) (fun p =>
      msum (map pc_outer (ad_chains d)) (fun x => cnorm2 (amp_flat (ad_chains d) x (A p) 1))).

  Definition intensity_unaligned (d : adesc) (A : list Z -> list Z -> C) : C :=
    msum (ad_pass d) (fun p => msum (map pc_outer (ad_chains d)) (fun x => cnorm2 (A p x))).
End Den.

(** ** the checker *)
Fixpoint list_eqb (a b : list Z) : bool :=
  match a, b with
  | [], [] => true
  | x :: a', y :: b' => (x =? y) && list_eqb a' b'
  | _, _ => false
  end.

Definition link_ok (s2 : nat) (l : link) : bool :=
  match l_kind l with LOne => (s2 =? 0)%nat | _ => true end.

(** every pool of the chain (outer, amplitude index, intermediate) is the complete range -s..s *)
Definition chain_ok (c : pchain) : bool :=
  let full := full_range (pc_s2 c) in
  list_eqb (pc_outer c) full && list_eqb (pc_first c) full && link_ok (pc_s2 c) (pc_link c)
  && forallb (fun ql => list_eqb (fst ql) full && link_ok (pc_s2 c) (snd ql)) (pc_more c).

Definition desc_ok (d : adesc) : bool := forallb chain_ok (ad_chains d).

(** the outer (observed) helicity set of some rotated particle is not the complete range:
    thinned by the user, or a massless particle of spin >= 1 *)
Definition outer_incomplete (d : adesc) : bool :=
  existsb (fun c => negb (list_eqb (pc_outer c) (full_range (pc_s2 c)))) (ad_chains d).

Definition massless_integer (d : adesc) : bool :=
  existsb (fun c => pc_massless c && Nat.even (pc_s2 c) && (2 <=? pc_s2 c)%nat) (ad_chains d).

(** pools that the code takes from create_spin_range agree with the model of Spin.v *)
Definition opt_eqb (a : list Z) (b : option (list Z)) : bool :=
  match b with Some l => list_eqb a l | None => false end.
Definition chain_matches_spin_model (c : pchain) : bool :=
  negb (pc_from_range c)
  || (let r := spin_range (pc_s2 c) (pc_massless c) in
      opt_eqb (pc_first c) r && forallb (fun ql => opt_eqb (fst ql) r) (pc_more c)).
Definition desc_matches_spin_model (d : adesc) : bool :=
  forallb chain_matches_spin_model (ad_chains d).
