#!/usr/bin/env python3
"""Regenerates /verif/MANIFEST.json from the table below (kept valid at all times)."""
import json
import os

VERIF = os.path.dirname(os.path.dirname(os.path.abspath(__file__)))
ALL = [f"C{i:02d}" for i in range(1, 21)]

CLAIMED = {
    "C03": dict(
        text="Coq theorems (all transition lists, all naming flags, by induction over the registration fold) about a Gallina model of the "
             "coefficient-name registration and of the prefactor rule: the mapping sends every registered key to itself or to its helicity-reversed "
             "partner and is idempotent; the builder's prefactor is the product of eta over exactly the nodes mapped to a different suffix; two chains "
             "sharing a coefficient differ by the product of eta over exactly the positions where their suffixes differ; the pre-fix rule is refuted by "
             "a two-node witness; under the CG reflection symmetry (Section hypothesis, validated exactly against SymPy for j<=3) reversing both daughter "
             "helicities multiplies the LS-expanded amplitude by eta=P P1 P2 (-1)^(J-s1-s2), for chains of any length. Tie: correspondence on corpus "
             "reactions x flags x variants (suffixes, mapping, sequential suffix, prefactor, CG arguments) + numeric canonical-vs-helicity harness.",
        note="Coq kernel; stdlib Reals axioms in the CG theorems; hand-written Naming.v tied by correspondence (sampled); CG_reflection hypothesis; "
             "Wigner-D factors only evaluated numerically; private name-mangled methods of the builder are called by the harness.",
        technique="Coq proof (fold induction) about a Gallina reference model + correspondence run + numeric canonical/helicity equivalence",
        design="6/C03", category="proof"),
    "C04": dict(
        text="PARTIAL. Proved in Coq on terms regenerated from /repo: Phi/Theta values and ranges, the frame chain BoostZ.Ry(-Theta).Rz(-Phi) aligns "
             "every off-axis momentum with +z (pins all sign conventions), it is the inverse Euler rotation, z-rotations shift Phi and leave deeper "
             "frames unchanged, and formulate_isobar_wigner_d has the D^J_{M,l_hel-l_opp}(-phi,theta,0) shape on all nodes of a reference reaction. "
             "Proved abstractly (rotation group + D matrices with D_mul/D_unit as Section hypotheses, validated exactly against SymPy for j<=2): "
             "one-node, two-node cascade and multi-chain unpolarised intensities are invariant. The bridge from formulated models to the abstract "
             "amplitudes is NOT proved: invariance of models is decided by the differential harness (rotate events, recompute kinematics, compare "
             "intensities) over single topologies (must hold), multi-topology aligned/unaligned families (known findings).",
        note="Coq kernel; stdlib Reals axioms; SU(2) representation theory assumed (named hypotheses); float64 harness with conditioning guard; "
             "known findings: multi-topology models (unaligned spinless, axis-angle, DPD) are not invariant on the pinned tree.",
        technique="Coq proof over regenerated kinematics + abstract representation-theoretic lemmas; numeric rotation harness decides the model-level clause",
        design="6/C04", category="proof"),
    "C06": dict(
        text="Coq theorems over a state-machine model (process-global memo tables holding heap addresses, builders, operations NewBuilder/SetConfig/"
             "SetNaming/Assign/RegisterTopo/Permutate/Formulate): for ALL operation histories on any number of builders and every skeleton that does "
             "not write through a memoised object, each Formulate returns formulate_spec(reaction, config); memo tables are transparent; the sorted "
             "output dictionaries depend only on the key->value map (any insertion order); pre-fix skeletons are refuted by computed witnesses. The "
             "skeleton (which define_symbols return memoised objects, what is written after insertion) is EXTRACTED from the running implementation "
             "each run by recording functools caches, and histories are executed in-process and compared with fresh-process digests under several "
             "PYTHONHASHSEEDs. Hash-seed independence beyond the modelled set iteration is exercised, not proved.",
        note="Coq kernel, no axioms; Purity.v is a hand model tied by skeleton extraction + history correspondence (sampled); fresh-process/seed clause partial.",
        technique="Coq proof (invariant + induction over operation lists) about a state-machine model + run-time skeleton extraction + history correspondence",
        design="6/C06", category="proof"),
    "C07": dict(
        text="Coq theorems for ALL isobar trees about a Gallina model of compute_helicity_angles / compute_invariant_masses / create_expressions: every "
             "mass entry is (m_ids, InvariantMass of the sum over the same sorted ids); the angle entries equal the documented specification; a name "
             "determines its value across trees over the same final state, so merging registered topologies is independent of set iteration order "
             "(proved for the repaired rule on all trees; the pre-fix overwrite is refuted by a witness); on regenerated trees InvariantMass/Phi/Theta "
             "denote sqrt(E^2-|p|^2), atan2(y,x), acos(z/|p|). Tie: correspondence on all isobar topologies with 2..5 leaves x permutations x "
             "renumberings x adapter sets; numeric harness against an independent boost-and-rotate evaluator and the Dalitz closed form (numeric only).",
        note="Coq kernel; structural theorems axiom-free, analytic ones stdlib Reals; Kin.v hand model tied by correspondence; theta=Dalitz form and "
             "frame-chain Lorentz property numeric only; known finding: nan angles below a subsystem exactly along z.",
        technique="Coq proof (tree induction) about a Gallina reference model + correspondence run + independent numeric frame evaluator",
        design="6/C07", category="proof"),
    "C09": dict(
        text="Coq theorems: (all n) in any ring with anti-involution and central i, K hermitian and X a two-sided inverse of 1-iK give S=1+2iKX unitary and "
             "T symmetric, also in the relativistic convention with rho=r.r (1x1..3x3 complex matrices shown to be instances); for the matrices "
             "regenerated from /repo (n=1,2; n=3 thorough) T(1-iK)=K=(1-iK)T entrywise wherever defined, T=conj(sqrt rho) That sqrt rho, hence "
             "unitarity and symmetry of the generated entries for real symmetric K and rho>0; the library's pole parametrisations are real symmetric "
             "for EVERY n_poles (induction over the pole sum; energy-dependent width opaque and assumed real>=0, discharged numerically). Numeric "
             "harness |S^dagger S-1|, |T-T^T| for n<=3, poles<=4, L<=4.",
        note="Coq kernel; stdlib Reals/Coquelicot axioms; ser.py; reading of Sum(body,(R,1,n_poles)); EnergyDependentWidth/FormFactor opaque; "
             "formulate(parametrize=True)=substitution checked numerically.",
        technique="Coq proof (non-commutative ring algebra + field over C on regenerated matrices + induction over pole sums)",
        design="6/C09", category="proof"),
    "C10": dict(
        text="Coq theorems on vectors regenerated from /repo: (1-iK)F=P entrywise (n=1,2; n=3 non-relativistic in thorough) and the relativistic analogue "
             "with the code's K-hat and the same rho; a vm_compute traversal of the parametrised results built with marker arguments shows that only the "
             "caller's phase-space factor, angular momentum and radius occur (with a generic lemma that a non-occurring head cannot influence the value); "
             "for one channel and one pole T and F reduce to the library's Breit-Wigner functions. Numeric residuals and atoms scan as search. "
             "RelativisticPVector with 3 channels is not covered (SymPy's inverse does not terminate in an hour).",
        note="Coq kernel; stdlib Reals axioms; ser.py attr_suffix puts non-SymPy attributes into the head; memoisation only exercised.",
        technique="Coq proof (field over C on regenerated vectors; syntactic occurrence check by computation with a soundness lemma)",
        design="6/C10", category="proof"),
    "C11": dict(
        text="Coq theorems, for all real s and positive masses, about the five phase-space trees regenerated from /repo (principal-branch semantics): "
             "q^2 symmetric and zero at (m1+-m2)^2; above threshold the real part of every variant is 2 sqrt(q^2)/sqrt(s) (imaginary part 0 for the three "
             "real ones); Complex = i Abs in the gap; EqualMass = SWave on the whole real axis except s in {0,4m^2} (all three regimes, incl. the "
             "half-angle identity); both tend to 0 at threshold (epsilon-delta) and the exact model's behaviour AT threshold is stated. Numeric harness "
             "through doit()+lambdify incl. 1e+-8 from threshold and asymptotic s. Known finding: SWave loses all float precision for s>~1e7 m1 m2.",
        note="Coq kernel; stdlib Reals/classical axioms; DenC/CLib principal-branch semantics; ComplexSqrt modelled by get_definition() (asserted equal to its NumPy print); floating point only exercised.",
        technique="Coq proof (real/complex analysis over regenerated SymPy trees)",
        design="6/C11", category="proof"),
    "C13": dict(
        text="Coq theorems (all reactions as lists of transitions, all assignment histories) about a Gallina model of DynamicsSelector and the dynamics "
             "part of the builder: an assignment sets exactly the decays its selection denotes; after any history the builder of a decay is that of the "
             "last denoting assignment; every node of every formulated chain (incl. identical-particle permutations) is a key; the chain amplitude "
             "with dynamics is the amplitude without times the product over nodes of the builder applied to that node's own variable set (masses of "
             "the parent's and the two children's leaves, L from the interaction else the integer spin); defaults are last-wins with a warning exactly "
             "on conflict and equal the particle table for the library builders; equal names carry equal defaults under the forced hypothesis that the "
             "identifier determines mass and width (refuted without it). Tie: history correspondence on corpus reactions + oracle harness.",
        note="Coq kernel, no axioms; Selector.v hand model tied by correspondence (sampled); chain visiting order taken from the implementation; a qrules "
             "particle-table identifier collision (N(1535)0 latex) makes the last clause false in practice for that pair (evidence note).",
        technique="Coq proof (fold induction) about a Gallina reference model + history correspondence",
        design="6/C13", category="proof"),
    "C16": dict(
        text="Coq theorems about a small-step model of perform_cached_doit over a directory (any key function, any doit): for ANY number of concurrent "
             "calls, any interleaving, a crash at any point incl. after any written chunk, and any truncation/deletion/garbage/legacy/foreign file, the "
             "robust variant (current code) preserves 'every valid entry (src,res) has res=doit src', every completed call returns doit(expr), nothing "
             "raises, and an undisturbed call terminates; the pre-fix variant is correct only under injective keys and undisturbed writes and is "
             "refuted by three computed witnesses (collision, truncation, concurrent reader). Tie: scripted directory histories on real temporary "
             "directories (every-prefix truncation, pre-existing files, killed writers, forked interleavings at patched open/dump/replace, three hash "
             "modes) compared op by op with the model; every return value compared with expr.doit().",
        note="Coq kernel, no axioms; Cache.v hand model tied by correspondence; OS facts (atomic rename, unique temp names, prefix of a pickle is unloadable) assumed; forged loadable files excluded by hypothesis.",
        technique="Coq proof (invariant over an interleaving transition system with crash/fault steps) + history correspondence with fault enumeration",
        design="6/C16", category="proof"),
    "C17": dict(
        text="Coq theorems (all models, all rename maps) about a Gallina model of rename_symbols: every attribute of the renamed model is the original with "
             "the symbol map applied (keys, values, dict-comprehension merge semantics, re-sorting); assumptions preserved; unrelated symbols and values "
             "untouched; empty and unknown maps are no-ops; the value of the renamed expression at rho equals the original at rho composed with the "
             "map (merging two parameters couples them and nothing else); closure (C01) is preserved unless a parameter is identified with a kinematic "
             "variable; both excluded merge kinds are refuted by witnesses (known findings). Composition is partial. Tie: correspondence on a zoo of "
             "formulated models x chains of maps of 15 kinds (all five dictionaries incl. order, expression, closure) + numeric intensity comparison.",
        note="Coq kernel, no axioms; Rename.v hand model tied by correspondence (sampled); PoolSum unfolding uninterpreted; semantics proved for PoolSum-free expressions.",
        technique="Coq proof (structural induction) about a Gallina reference model + correspondence run",
        design="6/C17", category="proof"),
    "C18": dict(
        text="Coq theorems for ANY summand, any number of indices, any nesting depth (values closed): the denotation of a PoolSum is the explicit sum over "
             "the product of its pools; evaluate and doit preserve it and leave no PoolSum; free symbols are those of summand and pools minus indices and "
             "the value depends only on them; substituting an index symbol leaves the node unchanged; substituting a free symbol commutes with "
             "evaluation; cleanup preserves the value exactly unless an index absent from the summand has a pool of size != 1 (refuted in general by the "
             "method's own doctest: known finding); shadowed nested indices evaluate inner-first; the unfolding loop of HelicityModel.expression "
             "preserves the value and is complete for builder-shaped nests. Tie: correspondence on random expressions (doit, evaluate, free_symbols, "
             "cleanup, subs, xreplace, expression) + itertools.product oracle.",
        note="Coq kernel; axiom-free except two witnesses over R; PoolSum.v hand model tied by correspondence (sampled); capture-avoidance and non-symbol substitution targets not modelled.",
        technique="Coq proof (structural induction over an expression type with binders) + correspondence run",
        design="6/C18", category="proof"),
    "C19": dict(
        text="Coq theorems on the 16+16+64 angle trees regenerated from /repo (error branches included): structural identities for all tuples "
             "(zeta^i_{j(0)}=zeta^i_{j(i)}, zero diagonals, antisymmetry); at every interior three-body event (non-collinear momenta, parent at rest) "
             "every tree is well defined - all arccos arguments in [-1,1], roots of positives, no division by zero; theta-hat is the signed angle between "
             "the three-momenta; theta_ij is the angle in the (ij) rest frame against the spectator (stated through a Lorentz-invariant Gram cosine "
             "proved equal to the rest-frame Euclidean cosine), theta_ij+theta_ji=pi; zeta^i_{j(k)} is the signed angle in particle i's rest frame and "
             "the cyclic sum rule holds at the level of angles for all six orderings; massless case zeta=0. 80-digit numeric harness against an "
             "independent boost evaluator, near-boundary points, DPD model definitions.",
        note="Coq kernel; stdlib Reals axioms; ser.py; doit() before serialisation (Kallen tied separately); boundary/collinear points and float64 only exercised.",
        technique="Coq proof (real analysis over regenerated SymPy trees; invariant Gram-form geometry)",
        design="6/C19", category="proof"),
    "C02": dict(
        text="Coq theorem, for ALL reaction data (any number of outer-projection groups, topologies, chains, nodes, any spins/LS/couplings/"
             "prefactors/lineshapes) and ALL numerical points and ANY interpretation of WignerD and CG: the expected model expression is well "
             "defined and denotes the helicity formula (incoherent sum over outer projections of |coherent sum over chains of prefactor x "
             "coefficient x prod over nodes of CG x CG x conj-D(J,m,l1-l2;phi,theta) x lineshape|^2), and likewise each component/amplitude/"
             "chain term. The spec is tied to the code by a correspondence run: it is evaluated inside Coq on data extracted independently from "
             "the qrules transitions (own child ordering, own symmetrisation of identical particles, own grouping) and compared with "
             "model.expression, every amplitude and every component (SymPy ==) over corpus x configurations; an independent numeric evaluation "
             "(exp(i m phi) d(theta), CG on numbers) runs as failing-input search. Known finding: identical particles with different helicities.",
        note="Coq kernel; stdlib Reals axioms via Coquelicot C; correspondence is differential (sampled reactions/configurations); symbol names and "
             "lineshape expressions are taken from ampform (C03/C07/C13 cover them); bridge/coqio.py parser; unaligned models only.",
        technique="Coq proof (structural induction) about a Gallina reference formula + correspondence run against the implementation + independent numeric evaluator",
        design="6/C02", category="proof"),
    "C01": dict(
        text="Coq theorems (closed under the global context) for EVERY model that passes the executable closure checker: each free symbol "
             "of the full intensity expression is a parameter xor a kinematic variable, every amplitude symbol the intensity sums over has a "
             "definition, kinematic-variable expressions depend on parameters and final-state momenta only, and hence - for every value type and "
             "every interpretation of all function heads - the model value is determined by four-momenta and parameter values alone. The checker "
             "is run inside Coq (vm_compute) on models regenerated from /repo on every run over corpus reactions x configuration lattice "
             "(alignments, scalar mass, stable ids, couplings, naming flags, permuted topologies, dynamics incl. custom, thinned helicity sets); "
             "a negative control (custom lineshape with an undefined symbol) must be rejected. The same property is checked with SymPy's "
             "free_symbols on a larger sample. Universal over models/values; over reactions and configurations it is per generated instance.",
        note="Coq kernel, vm_compute for the checker; no axioms; bridge/modelgen.py serialiser (symbol identity = name + assumptions); "
             "reactions x configurations are sampled (22 corpus reactions, seeded lattice), not quantified in Coq.",
        technique="Coq-verified checker (soundness proved by induction over trees) run on models regenerated from the code; differential SymPy harness",
        design="6/C01", category="proof"),
    "C20": dict(
        text="Coq theorems about the expression trees regenerated from /repo on every run (Kallen value/symmetry/"
             "factorisation, third Mandelstam variable on any event, Kibble<=0 and indicator=1 on every rest-frame event, "
             "indicator = 1 iff sigma2 within the PDG Dalitz limits inside the bounding box else the caller's value), for all reals; "
             "plus an exact-rational harness on the implementation that doubles as failing-input search.",
        note="Coq kernel; stdlib Reals axioms (sig_forall_dec, sig_not_dec, functional_extensionality_dep, classic); "
             "bridge/ser.py translator; DenR.v semantics of SymPy primitives (exact reals, no floating point); "
             "PDG limit formula transcribed by hand in PhspMath.v.",
        technique="Coq proof over regenerated SymPy trees (field/nra) + exact differential harness",
        design="6/C20"),
    "C08": dict(
        text="Coq theorems, for all time-like momenta with non-zero three-momentum / all |beta|<1 / all angles, about the matrices "
             "regenerated from /repo on every run: as_explicit() entries and the per-event symbolic meaning of the lambdify-generated "
             "NumPy code with cse on and off (L^T eta L = eta, det = 1, L00 >= 1, B(p)p = (m,0,0,0), B(-p)B(p) = 1, B(0,0,pz) = Bz(pz/E), "
             "R(a)R(b) = R(a+b), generated code = explicit matrix); numeric harness over cse x batch sizes as search.",
        note="Coq kernel; stdlib Reals axioms; ser.py; symexec.py (symbolic execution of generated NumPy source, own einsum/select shims); "
             "DenR.v/Mat.v semantics; floating point and batch-pointwise-ness only exercised numerically.",
        technique="Coq proof (field + relation elimination) over regenerated matrices and symbolically executed NumPy code",
        design="6/C08"),
    "C12": dict(
        text="Coq theorems over trees regenerated from /repo each run: EnergyDependentWidth.evaluate() equals Gamma0 at s=m0^2 wherever defined, "
             "for an uninterpreted phase-space function and for the five library classes as opaque nodes (hence every phase-space factor, "
             "form factor and L); the Blatt-Weisskopf polynomial path for L=0..10 is defined on z>=0, equals 1 at z=1, is bounded, is z^L times a "
             "continuous residual positive at 0, and equals the Hankel-function definition for z>0; builder expressions are the public lineshape "
             "functions for all 17 flag x phase-space combinations, with the tabulated defaults.",
        note="Coq kernel; stdlib Reals axioms (+Coquelicot's use of classic); ser.py; DenR.v/DenC.v semantics; Hankel definition transcribed by hand; "
             "symbolic-L Hankel path only compared numerically.",
        technique="Coq proof over regenerated trees with uninterpreted function symbols; certificate-checked rational forms",
        design="6/C12"),
}

NOT_YET = "not built yet in this session (design in DESIGN.md section 6); no check is registered, nothing is claimed"


def main():
    checks = []
    for pid in ALL:
        if pid not in CLAIMED:
            continue
        c = CLAIMED[pid]
        checks.append({
            "property_id": pid,
            "quick_cmd": f"./check {pid} --tier quick",
            "thorough_cmd": f"./check {pid} --tier thorough",
            "evidence_file": f"/verif/evidence/{pid}.json",
            "replay_cmd_template": f"./check {pid} --replay {{path}}",
            "engine": "coq-proof",
            "level_claimed": {"category": c.get("category", "proof"), "text": c["text"],
                              "design_ref": "DESIGN.md " + c["design"]},
            "level_note": c["note"],
            "technique": c["technique"],
        })
    man = {
        "version": 1,
        "setup_cmd": "make -C coq theories",
        "hooks": {
            "guard": "AMPFORM_VERIF",
            "enable": "no source hooks: all observation is by importing /repo/src (PYTHONPATH forced) or by patching inside the harness process",
            "baseline_off_cmd": "cd /repo && /venv/bin/python -m pytest -ra -q -p no:cacheprovider --timeout=900 --continue-on-collection-errors",
            "source_commits": [],
            "add_only": True,
        },
        "engines": [{
            "name": "coq-proof", "path": "/verif/check",
            "serves_properties": sorted(CLAIMED),
            "kind_free_text": "Coq 8.16 theorems over models regenerated from /repo (bridge/symgen_*.py) or hand-written "
                              "Gallina reference implementations tied by a correspondence run; Python harness for search/replay",
        }],
        "checks": checks,
        "notes": "See DESIGN.md. known_findings.json lists recorded findings and fixes.",
        "not_applicable": [{"property_id": p, "reason": NA.get(p, NOT_YET)} for p in ALL if p not in CLAIMED],
    }
    with open(os.path.join(VERIF, "MANIFEST.json"), "w") as f:
        json.dump(man, f, indent=1)
    try:
        import jsonschema
        jsonschema.validate(man, json.load(open("/root/.vp/MANIFEST.schema.json")))
        print("MANIFEST valid;", len(checks), "checks")
    except ImportError:
        print("written (jsonschema not available)")


NA = {}
main()
