#!/usr/bin/env python3
"""Regenerates /verif/MANIFEST.json from the table below (kept valid at all times)."""
import json
import os

VERIF = os.path.dirname(os.path.dirname(os.path.abspath(__file__)))
ALL = [f"C{i:02d}" for i in range(1, 21)]

CLAIMED = {
    "C02": dict(
        text="Coq theorem, for ALL reaction data (any number of outer-projection groups, topologies, chains, nodes, any spins/LS/couplings/"
             "prefactors/lineshapes) and ALL numerical points and ANY interpretation of WignerD and CG: the expected model expression is well "
             "defined and denotes the helicity formula (incoherent sum over outer projections of |coherent sum over chains of prefactor x "
             "coefficient x prod over nodes of CG x CG x conj-D(J,m,l1-l2;phi,theta) x lineshape|^2), and likewise each component/amplitude/"
             "chain term. The spec is tied to the code by a correspondence run: it is evaluated inside Coq on data extracted independently from "
             "the qrules transitions (own child ordering, own symmetrisation of identical particles, own grouping) and compared with "
             "model.expression, every amplitude and every component (SymPy ==) over corpus x configurations; an independent numeric evaluation "
             "(exp(i m phi) d(theta), CG on numbers) runs as failing-input search. Known finding: identical particles with different helicities.",
        note="Coq kernel; stdlib Reals axioms via Coquelicot C; correspondence is differential (sampled reactions/configurations); symbol names and "
             "lineshape expressions are taken from ampform (C03/C07/C13 cover them); bridge/coqio.py parser; unaligned models only.",
        technique="Coq proof (structural induction) about a Gallina reference formula + correspondence run against the implementation + independent numeric evaluator",
        design="6/C02", category="proof"),
    "C01": dict(
        text="Coq theorems (closed under the global context) for EVERY model that passes the executable closure checker: each free symbol "
             "of the full intensity expression is a parameter xor a kinematic variable, every amplitude symbol the intensity sums over has a "
             "definition, kinematic-variable expressions depend on parameters and final-state momenta only, and hence - for every value type and "
             "every interpretation of all function heads - the model value is determined by four-momenta and parameter values alone. The checker "
             "is run inside Coq (vm_compute) on models regenerated from /repo on every run over corpus reactions x configuration lattice "
             "(alignments, scalar mass, stable ids, couplings, naming flags, permuted topologies, dynamics incl. custom, thinned helicity sets); "
             "a negative control (custom lineshape with an undefined symbol) must be rejected. The same property is checked with SymPy's "
             "free_symbols on a larger sample. Universal over models/values; over reactions and configurations it is per generated instance.",
        note="Coq kernel, vm_compute for the checker; no axioms; bridge/modelgen.py serialiser (symbol identity = name + assumptions); "
             "reactions x configurations are sampled (22 corpus reactions, seeded lattice), not quantified in Coq.",
        technique="Coq-verified checker (soundness proved by induction over trees) run on models regenerated from the code; differential SymPy harness",
        design="6/C01", category="proof"),
    "C20": dict(
        text="Coq theorems about the expression trees regenerated from /repo on every run (Kallen value/symmetry/"
             "factorisation, third Mandelstam variable on any event, Kibble<=0 and indicator=1 on every rest-frame event, "
             "indicator = 1 iff sigma2 within the PDG Dalitz limits inside the bounding box else the caller's value), for all reals; "
             "plus an exact-rational harness on the implementation that doubles as failing-input search.",
        note="Coq kernel; stdlib Reals axioms (sig_forall_dec, sig_not_dec, functional_extensionality_dep, classic); "
             "bridge/ser.py translator; DenR.v semantics of SymPy primitives (exact reals, no floating point); "
             "PDG limit formula transcribed by hand in PhspMath.v.",
        technique="Coq proof over regenerated SymPy trees (field/nra) + exact differential harness",
        design="6/C20"),
    "C08": dict(
        text="Coq theorems, for all time-like momenta with non-zero three-momentum / all |beta|<1 / all angles, about the matrices "
             "regenerated from /repo on every run: as_explicit() entries and the per-event symbolic meaning of the lambdify-generated "
             "NumPy code with cse on and off (L^T eta L = eta, det = 1, L00 >= 1, B(p)p = (m,0,0,0), B(-p)B(p) = 1, B(0,0,pz) = Bz(pz/E), "
             "R(a)R(b) = R(a+b), generated code = explicit matrix); numeric harness over cse x batch sizes as search.",
        note="Coq kernel; stdlib Reals axioms; ser.py; symexec.py (symbolic execution of generated NumPy source, own einsum/select shims); "
             "DenR.v/Mat.v semantics; floating point and batch-pointwise-ness only exercised numerically.",
        technique="Coq proof (field + relation elimination) over regenerated matrices and symbolically executed NumPy code",
        design="6/C08"),
    "C12": dict(
        text="Coq theorems over trees regenerated from /repo each run: EnergyDependentWidth.evaluate() equals Gamma0 at s=m0^2 wherever defined, "
             "for an uninterpreted phase-space function and for the five library classes as opaque nodes (hence every phase-space factor, "
             "form factor and L); the Blatt-Weisskopf polynomial path for L=0..10 is defined on z>=0, equals 1 at z=1, is bounded, is z^L times a "
             "continuous residual positive at 0, and equals the Hankel-function definition for z>0; builder expressions are the public lineshape "
             "functions for all 17 flag x phase-space combinations, with the tabulated defaults.",
        note="Coq kernel; stdlib Reals axioms (+Coquelicot's use of classic); ser.py; DenR.v/DenC.v semantics; Hankel definition transcribed by hand; "
             "symbolic-L Hankel path only compared numerically.",
        technique="Coq proof over regenerated trees with uninterpreted function symbols; certificate-checked rational forms",
        design="6/C12"),
}

NOT_YET = "not built yet in this session (design in DESIGN.md section 6); no check is registered, nothing is claimed"


def main():
    checks = []
    for pid in ALL:
        if pid not in CLAIMED:
            continue
        c = CLAIMED[pid]
        checks.append({
            "property_id": pid,
            "quick_cmd": f"./check {pid} --tier quick",
            "thorough_cmd": f"./check {pid} --tier thorough",
            "evidence_file": f"/verif/evidence/{pid}.json",
            "replay_cmd_template": f"./check {pid} --replay {{path}}",
            "engine": "coq-proof",
            "level_claimed": {"category": c.get("category", "proof"), "text": c["text"],
                              "design_ref": "DESIGN.md " + c["design"]},
            "level_note": c["note"],
            "technique": c["technique"],
        })
    man = {
        "version": 1,
        "setup_cmd": "make -C coq theories",
        "hooks": {
            "guard": "AMPFORM_VERIF",
            "enable": "no source hooks: all observation is by importing /repo/src (PYTHONPATH forced) or by patching inside the harness process",
            "baseline_off_cmd": "cd /repo && /venv/bin/python -m pytest -ra -q -p no:cacheprovider --timeout=900 --continue-on-collection-errors",
            "source_commits": [],
            "add_only": True,
        },
        "engines": [{
            "name": "coq-proof", "path": "/verif/check",
            "serves_properties": sorted(CLAIMED),
            "kind_free_text": "Coq 8.16 theorems over models regenerated from /repo (bridge/symgen_*.py) or hand-written "
                              "Gallina reference implementations tied by a correspondence run; Python harness for search/replay",
        }],
        "checks": checks,
        "notes": "See DESIGN.md. known_findings.json lists recorded findings and fixes.",
        "not_applicable": [{"property_id": p, "reason": NA.get(p, NOT_YET)} for p in ALL if p not in CLAIMED],
    }
    with open(os.path.join(VERIF, "MANIFEST.json"), "w") as f:
        json.dump(man, f, indent=1)
    try:
        import jsonschema
        jsonschema.validate(man, json.load(open("/root/.vp/MANIFEST.schema.json")))
        print("MANIFEST valid;", len(checks), "checks")
    except ImportError:
        print("written (jsonschema not available)")


NA = {}
main()
