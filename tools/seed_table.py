#!/usr/bin/env python3
"""Prints the markdown table 'which check catches which seeded change' from /verif/seeded/*/*/meta.json."""
import glob, json, os
rows = []
for f in sorted(glob.glob("/verif/seeded/C*/*/meta.json")):
    m = json.load(open(f))
    pid, name = f.split("/")[-3], f.split("/")[-2]
    cr = m.get("check_result") or {}
    if m.get("status", "").startswith("obsolete"):
        rows.append(f"| {pid}/{name} | (obsolete) {m['status'][:200]} | — | — | — |")
        continue
    mech = (m.get("mechanism") or "").replace("\n", " ").replace("|", "/")
    mech = mech[:230] + ("…" if len(mech) > 230 else "")
    how = cr.get("first_replay_signature") or ("proof/tie no longer checks (no-failing-input-found)" if cr.get("of_which_no_failing_input_found") else "-")
    rows.append(f"| {pid}/{name} | {mech} | {'yes' if cr.get('caught') else 'NO'} | `{how}` | {cr.get('replay_exit_on_changed_tree')}/{cr.get('replay_exit_on_clean_tree')} |")
print("| seeded change | mechanism (author's words, abridged) | caught by `./check` quick | first violation signature | replay exit changed/clean |")
print("|---|---|---|---|---|")
print("\n".join(rows))
