#!/usr/bin/env python3
"""Copy confirmed seeded changes (tests pass with the change, demo fails with / passes without) into /verif/seeded/<id>/<m>/."""
import glob, json, os, shutil
rows = []
for f in sorted(glob.glob("/tmp/seedeval/C*_*m[0-9].json")):
    try:
        ev = json.load(open(f))
    except Exception:
        continue
    pid, m = os.path.basename(f)[:-5].split("_")
    src = ev["dir"]
    confirmed = ev.get("demo_clean_rc") == 0 and ev.get("demo_mutant_rc") not in (0, None) and ev.get("tests_pass")
    if not confirmed:
        rows.append((pid, m, "NOT CONFIRMED", ev))
        continue
    dst = f"/verif/seeded/{pid}/{m}"
    os.makedirs(dst, exist_ok=True)
    for name in ("patch.diff", "demo.py"):
        shutil.copy(os.path.join(src, name), os.path.join(dst, name))
    meta = {}
    try:
        meta = json.load(open(os.path.join(src, "meta.json")))
    except Exception:
        pass
    caught = ev.get("check_rc") == 1 and ev.get("violations", 0) > 0
    meta_out = {
        "property": pid,
        "mechanism": meta.get("mechanism"),
        "needs_to_manifest": meta.get("needs_to_manifest"),
        "author_ran": meta.get("ran"),
        "confirmed_by_coordinator": {
            "how": "tools/try_seed.py in a scratch worktree of /repo HEAD: demo.py on clean tree, git apply patch.diff, demo.py on changed tree, "
                   "tools/run_baseline.py (302 pinned tests) on the changed tree, VERIF_REPO=<tree> ./check %s --tier quick, replay of the first violation on both trees" % pid,
            "demo_exit_clean": ev.get("demo_clean_rc"), "demo_exit_changed": ev.get("demo_mutant_rc"),
            "pinned_tests_pass_with_change": ev.get("tests_pass"),
        },
        "check_result": {
            "exit": ev.get("check_rc"), "violation_lines": ev.get("violations"),
            "of_which_no_failing_input_found": ev.get("no_input"),
            "first_replay_signature": ev.get("replay_signature"), "first_replay_what": ev.get("replay_what"),
            "replay_exit_on_changed_tree": ev.get("replay_mutant_rc"), "replay_exit_on_clean_tree": ev.get("replay_clean_rc"),
            "caught": caught,
        },
    }
    json.dump(meta_out, open(os.path.join(dst, "meta.json"), "w"), indent=1)
    rows.append((pid, m, "caught" if caught else "MISSED", ev))
for pid, m, status, ev in rows:
    print(pid, m, status, ev.get("replay_signature"), "no_input=%s" % ev.get("no_input"))
