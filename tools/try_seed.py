#!/usr/bin/env python3
"""tools/try_seed.py <Cxx> <dir-with-patch.diff+demo.py+meta.json> [--tier quick]
Confirms a seeded change in a scratch worktree (tests still pass, demo fails with / passes without the change), runs
./check Cxx against it (VERIF_REPO), replays the first violation on mutant and clean tree, removes the worktree.
Prints a JSON summary."""
import json, os, re, subprocess, sys, tempfile, shutil

pid, d = sys.argv[1], os.path.abspath(sys.argv[2])
tier = sys.argv[sys.argv.index("--tier") + 1] if "--tier" in sys.argv else "quick"
wt = tempfile.mkdtemp(prefix=f"eval_{pid}_", dir="/tmp")
os.rmdir(wt)
run = lambda cmd, **kw: subprocess.run(cmd, capture_output=True, text=True, **kw)
run(["git", "-C", "/repo", "worktree", "add", "--detach", wt, "HEAD", "-q"])
out = {"property": pid, "dir": d}
try:
    env = dict(os.environ, PYTHONPATH=os.path.join(wt, "src"), PYTHONHASHSEED="0")
    demo = os.path.join(d, "demo.py")
    r = run(["/venv/bin/python", demo], env=env, cwd=wt)
    out["demo_clean_rc"] = r.returncode
    a = run(["git", "-C", wt, "apply", os.path.join(d, "patch.diff")])
    if a.returncode != 0:
        out["apply_error"] = a.stderr[-300:]
        print(json.dumps(out)); sys.exit(2)
    r = run(["/venv/bin/python", demo], env=env, cwd=wt)
    out["demo_mutant_rc"] = r.returncode
    out["demo_mutant_tail"] = (r.stdout + r.stderr)[-300:]
    t = run(["python3", "/verif/tools/run_baseline.py", wt])
    out["tests"] = [l for l in t.stdout.splitlines() if not l.startswith("WARNING")][:4]
    out["tests_pass"] = t.returncode == 0
    c = run(["./check", pid, "--tier", tier], cwd="/verif", env=dict(os.environ, VERIF_REPO=wt, VERIF_SEED="1"))
    lines = [l for l in c.stdout.splitlines() if l.startswith("VIOLATION")]
    out["check_rc"] = c.returncode
    out["violations"] = len(lines)
    out["no_input"] = sum("no-failing-input-found" in l for l in lines)
    out["summary"] = [l for l in c.stdout.splitlines() if l.startswith(pid + ":")][-1:]
    with_input = [l for l in lines if "no-failing-input-found" not in l]
    if with_input:
        rp = re.search(r"replay=(\S+)", with_input[0]).group(1)
        out["replay_what"] = json.load(open(rp)).get("what", "")[:300]
        out["replay_signature"] = json.load(open(rp)).get("signature")
        rm = run(["./check", pid, "--replay", rp], cwd="/verif", env=dict(os.environ, VERIF_REPO=wt))
        rc = run(["./check", pid, "--replay", rp], cwd="/verif")
        out["replay_mutant_rc"], out["replay_clean_rc"] = rm.returncode, rc.returncode
    elif lines:
        rp = re.search(r"replay=(\S+)", lines[0]).group(1)
        out["replay_what"] = json.load(open(rp)).get("what", "")[:300]
finally:
    run(["git", "-C", "/repo", "worktree", "remove", "--force", wt])
    shutil.rmtree(wt, ignore_errors=True)
print(json.dumps(out, indent=1))
