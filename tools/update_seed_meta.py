#!/usr/bin/env python3
"""Refresh seeded/<id>/<m>/meta.json 'check_result' from the latest regression run of tools/try_seed.py
(/tmp/seedreg/<id>_<m>.json): every stored change re-applied to /repo's HEAD and run against the current checks."""
import glob, json, os, subprocess
head = subprocess.run(["git", "-C", "/repo", "rev-parse", "--short", "HEAD"], capture_output=True, text=True).stdout.strip()
vhead = subprocess.run(["git", "-C", "/verif", "rev-parse", "--short", "HEAD"], capture_output=True, text=True).stdout.strip()
n = 0
for f in sorted(glob.glob("/tmp/seedreg/C*_*.json")):
    pid, m = os.path.basename(f)[:-5].split("_")
    mp = f"/verif/seeded/{pid}/{m}/meta.json"
    if not os.path.exists(mp):
        continue
    try:
        ev = json.load(open(f))
    except Exception:
        continue
    meta = json.load(open(mp))
    if meta.get("status", "").startswith("obsolete"):
        continue
    if "apply_error" in ev or ev.get("check_rc") is None:
        continue
    caught = ev.get("check_rc") == 1 and ev.get("violations", 0) > 0
    meta["check_result"] = {
        "exit": ev.get("check_rc"), "violation_lines": ev.get("violations"),
        "of_which_no_failing_input_found": ev.get("no_input"),
        "first_replay_signature": ev.get("replay_signature"), "first_replay_what": ev.get("replay_what"),
        "replay_exit_on_changed_tree": ev.get("replay_mutant_rc"), "replay_exit_on_clean_tree": ev.get("replay_clean_rc"),
        "caught": caught, "summary": ev.get("summary"),
        "regression_run": f"re-applied to /repo {head} and checked with /verif {vhead} (tools/try_seed.py, quick tier)",
    }
    meta.setdefault("confirmed_by_coordinator", {}).update({
        "demo_exit_clean_at_regression": ev.get("demo_clean_rc"), "demo_exit_changed_at_regression": ev.get("demo_mutant_rc"),
        "pinned_tests_pass_with_change_at_regression": ev.get("tests_pass")})
    json.dump(meta, open(mp, "w"), indent=1)
    n += 1
print("updated", n)
