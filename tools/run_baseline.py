#!/usr/bin/env python3
"""Runs the pinned test suite on /repo (or $1) and reports stable_pass tests that no longer pass."""
import json, subprocess, sys, tempfile, os, xml.etree.ElementTree as ET
repo = sys.argv[1] if len(sys.argv) > 1 else "/repo"
base = json.load(open("/root/.vp/BASELINE.json"))
with tempfile.TemporaryDirectory() as d:
    x = os.path.join(d, "j.xml")
    env = dict(os.environ); env.pop("AMPFORM_VERIF", None); env["PYTHONPATH"] = os.path.join(repo, "src")
    subprocess.run(["/venv/bin/python", "-m", "pytest", "-ra", "-q", "-p", "no:cacheprovider", "--timeout=900",
                    "--continue-on-collection-errors", "-n", "8", f"--junitxml={x}"], cwd=repo, env=env,
                   stdout=subprocess.DEVNULL, stderr=subprocess.DEVNULL)
    if not os.path.exists(x):
        subprocess.run(["/venv/bin/python", "-m", "pytest", "-ra", "-q", "-p", "no:cacheprovider", "--timeout=900",
                    "--continue-on-collection-errors", f"--junitxml={x}"], cwd=repo, env=env,
                   stdout=subprocess.DEVNULL, stderr=subprocess.DEVNULL)
    passed = set()
    for tc in ET.parse(x).getroot().iter("testcase"):
        if not any(c.tag in ("failure", "error", "skipped") for c in tc):
            passed.add(tc.get("classname") + "::" + tc.get("name"))
missing = [t for t in base["stable_pass"] if t not in passed]
print(f"stable_pass={len(base['stable_pass'])} passed_now={len(passed)} missing={len(missing)}")
for m in missing[:40]:
    print("  NOT PASSING:", m)
sys.exit(1 if missing else 0)
